#!/usr/bin/env python3
"""Print the prompt given to a mutation sub-agent for one property."""
import json, sys
pid = sys.argv[1]
for line in open('/verif/properties.jsonl'):
    p = json.loads(line)
    if p['id'] == pid:
        break
wt = f'/tmp/wt-{pid}'
out = f'/tmp/seedout/{pid}'
print(f"""You are helping to evaluate a verification effort for the Python library mamrhein/quantity (unit-safe arithmetic on physical quantities and money, exact rational amounts). You have your own scratch git worktree of the library at {wt} (sources in {wt}/src/quantity, tests in {wt}/tests). Work ONLY inside {wt} and {out}; never touch /repo or /verif, and do not read anything under /verif.

The library is supposed to satisfy this semantic property:

  Title: {p['title']}
  Statement: {p['statement']}
  Quantified over: {p['quantifier']['text']}

Your task: produce TWO different, independent, realistic source changes (the kind of mistake or "optimisation" a maintainer could plausibly commit) to the library that each BREAK this property while the library still imports and the existing test suite still passes completely. Prefer changes that need something specific to manifest -- an unusual input (particular magnitude, sign, tie, representation such as Fraction vs Decimal), a particular pair/triple of units, a multi-step sequence of operations, a particular order of declarations or earlier evaluated operations (caches / memoised state), a non-default rounding mode, or two cooperating sites that each look fine alone -- rather than ones any ordinary use would expose at once. Do not just delete whole features; do not edit tests.

How to run things (IMPORTANT: the installed package points at /repo, so always set PYTHONPATH to your worktree):
  cd {wt} && PYTHONPATH={wt}/src /venv/bin/python -m pytest -q -p no:cacheprovider -x tests      (about 30 s; all 2998 tests must pass)
  cd {wt} && PYTHONPATH={wt}/src /venv/bin/python your_script.py
Note: with the default C accelerator of the dependency `decimalfp` a few exotic operations crash the interpreter (e.g. a Decimal with exactly 9 fractional digits divided by an integer). If you hit that, set DECIMALFP_FORCE_PYTHON_IMPL=1 for your demo script (the test suite must be run without it, as above). Your demonstration must behave the same with DECIMALFP_FORCE_PYTHON_IMPL=1.

For each of the two changes k = 1, 2 deliver in {out}:
  mut{{k}}.diff   -- `git -C {wt} diff` of the change (only files under src/)
  demo{{k}}.py    -- a small stand-alone program using only the library's public API that exits 0 and prints PASS on the ORIGINAL tree and exits 1 printing FAIL (with the offending values) on the changed tree, because the property above is violated
  note{{k}}.txt   -- 3-6 lines: what the change is, why it breaks the property, what specific input / sequence / configuration is needed to see it
Procedure per change: make the edit, run the full test suite (must pass), run the demo (must FAIL), save the diff, then `git -C {wt} checkout -- .` and run the demo again (must PASS) before starting the next change. Leave the worktree clean at the end. The two changes should touch different mechanisms. In your final answer list for each change: files/lines touched, the test-suite result line, the demo outputs on changed and original tree.""")
