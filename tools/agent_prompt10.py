#!/usr/bin/env python3
"""Wave-2 prompt: as agent_prompt.py plus the list of mechanisms already used."""
import glob, json, subprocess, sys
pid = sys.argv[1]
base = subprocess.check_output(['python3', '/verif/tools/agent_prompt.py', pid]).decode()
base = base.replace(f'/tmp/seedout/{pid}', f'/tmp/seedout10/{pid}').replace(f'/tmp/wt-{pid}', f'/tmp/wt10-{pid}')
used = []
for f in sorted(glob.glob(f'/verif/seeded/{pid}-*/meta.json')):
    m = json.load(open(f))
    note = ' '.join((m.get('needs_to_manifest') or '').split())[:400]
    used.append(f"- {m['name']}: {note}")
extra = ("\n\nChanges of this kind have ALREADY been produced for this property by earlier rounds; do not repeat "
         "their mechanisms or sites -- find clearly different ones (other functions, other operand kinds, other "
         "state, other inputs):\n" + '\n'.join(used) + "\n"
         "Good directions that are still open: operand kinds and reflected operators, unusual but valid argument "
         "types (bool, numpy-free numeric ABC subclasses, SIPrefix), sign / zero / very large or tiny magnitudes, "
         "Fraction vs Decimal holders, non-default rounding modes, order of declarations, object identity vs "
         "equality, state left behind by exceptions, interactions between two features.\n")
extra += ("\nSide task (as valuable as the main task; spend up to a third of your effort on it): if you find an input or sequence for "
          "which the UNCHANGED library already violates the property as stated, do not use it for a change; instead "
          "describe it precisely (a 5-line reproducer) in a file side_remarks.txt in your output directory and mention "
          "it in your final report. Already known, do not report again: quantities that are equal only through a registered "
          "converter hash differently; round() of a Fraction-held amount ignores the configured rounding mode; the decimalfp C "
          "accelerator misbehaves for some operands (use DECIMALFP_FORCE_PYTHON_IMPL=1); exchange rates below 1e-6 cannot be "
          "represented; definition-less or negatively scaled units, symbol-only reference units and zero definitions were "
          "looked at already; allocation ratios related only by a converter (money in two currencies, temperatures), quantize "
          "with a negative quantum, a table factor of zero, with-blocks and sub-classes of Money, MoneyMeta used directly, "
          "pickling/copying are known as well.\n")
print(base + extra)
