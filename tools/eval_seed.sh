#!/bin/bash
# tools/eval_seed.sh <srcdir> <k> <seedname> <tier> <prop> [<prop>...]
# Confirms a seeded change (applies, suite passes, demo fails with / passes
# without), runs the named checks against it, stores it under seeded/<name>/.
set -u
src="$1"; k="$2"; name="$3"; tier="$4"; shift 4
patch="$src/mut$k.diff"; demo="$src/demo$k.py"; note="$src/note$k.txt"
wt=$(mktemp -d /tmp/vq-wt.XXXXXX); out=$(mktemp -d /tmp/vq-out.XXXXXX); rmdir "$wt"
git -C /repo worktree add -q --detach "$wt" HEAD || exit 2
cleanup() { git -C /repo worktree remove --force "$wt" 2>/dev/null; rm -rf "$out"; }
demo_orig=$(cd "$wt" && PYTHONPATH="$wt/src" DECIMALFP_FORCE_PYTHON_IMPL=1 timeout 600 /venv/bin/python "$demo" >/dev/null 2>&1; echo $?)
if ! git -C "$wt" apply "$patch" 2>/dev/null && ! git -C "$wt" apply --3way "$patch" 2>/dev/null; then
  echo "PATCH DOES NOT APPLY"; cleanup; exit 3; fi
suite=$(cd "$wt" && PYTHONPATH="$wt/src" timeout 900 /venv/bin/python -m pytest -q -p no:cacheprovider tests 2>&1 | tail -1)
demo_mut=$(cd "$wt" && PYTHONPATH="$wt/src" DECIMALFP_FORCE_PYTHON_IMPL=1 timeout 600 /venv/bin/python "$demo" >/dev/null 2>&1; echo $?)
echo "suite: $suite | demo on original: exit $demo_orig | demo on changed: exit $demo_mut"
caught=""
for p in "$@"; do
  res=$(VQ_REPO="$wt" VQ_OUT="$out" timeout 3000 /verif/check "$p" "$tier" 2>&1)
  echo "$res" | grep -E "VIOLATION|^C[0-9]+ |Traceback|Error" | cut -c1-330 | head -8
  if echo "$res" | grep -q "^VIOLATION"; then caught="$caught $p"; fi
done
mkdir -p "/verif/seeded/$name"
git -C "$wt" diff > "/verif/seeded/$name/patch.diff"
cp "$demo" "/verif/seeded/$name/demo.py"
[ -f "$note" ] && cp "$note" "/verif/seeded/$name/note.txt"
python3 - "$name" "$suite" "$demo_orig" "$demo_mut" "$tier" "$caught" "$@" <<'PY'
import json, sys, os
name, suite, d0, d1, tier, caught, *props = sys.argv[1:]
note = ''
p = f'/verif/seeded/{name}/note.txt'
if os.path.exists(p):
    note = open(p).read().strip()
old = {}
if os.path.exists(f'/verif/seeded/{name}/meta.json'):
    old = json.load(open(f'/verif/seeded/{name}/meta.json'))
oc = old.get('checks_run', {})
if oc.get('tier') == tier:
    props = sorted(set(props) | set(oc.get('properties', [])))
    caught = ' '.join(sorted(set(caught.split())
                             | (set(oc.get('reported_violation', []))
                                - set(sys.argv[7:]))))
meta = {'name': name, 'breaks_property': name.split('-')[0],
        'needs_to_manifest': note,
        'confirmed': {'test_suite_with_change': suite,
                      'demo_exit_on_original': int(d0),
                      'demo_exit_on_changed': int(d1)},
        'checks_run': {'tier': tier, 'properties': props,
                       'reported_violation': caught.split()},
        'applies_to_repo_commit': __import__('subprocess').check_output(
            ['git', '-C', '/repo', 'rev-parse', '--short', 'HEAD'],
            text=True).strip(),
        'how': 'tools/eval_seed.sh (scratch worktree of /repo HEAD, patch applied, '
               'PYTHONPATH=<wt>/src pytest; VQ_REPO=<wt> ./check <prop> <tier>)'}
json.dump(meta, open(f'/verif/seeded/{name}/meta.json', 'w'), indent=1, ensure_ascii=False)
print('caught by:', caught or 'NONE')
PY
cleanup
