#!/usr/bin/env python3
"""Regenerate MANIFEST.json from the table below (keeps it valid)."""
import json
import os

HERE = os.path.dirname(os.path.dirname(os.path.abspath(__file__)))

TRUST = ("CPython 3.12, fractions, decimalfp's pure-Python Decimal (+ "
         "equivalent _approx_rational shim, self-tested), the reference "
         "model named in level_claimed; bounds as stated in the evidence file")

CHECKS = {
    'C01': dict(
        engine='V+fork',
        technique="bounded exhaustive exploration (explicit-state BFS over "
                  "(unit, amount) states, all conversion paths up to depth "
                  "2/3, all user definition trees up to 2/3 units) against a "
                  "Fraction scale-table reference model",
        text="Every conversion path of bounded depth from every (unit, "
             "amount) of a fixed alphabet is executed on the real library in "
             "the predefined catalogue and in every enumerated user world, "
             "each step compared with a scale table kept by the harness.",
        ref='4/C01'),
    'C20': dict(
        engine='V',
        technique="complete enumeration of a finite catalogue (every unit, "
                  "ordered pair, prefix, documentation row) against a "
                  "hand-entered reference table",
        text="The catalogue is finite; every unit, every ordered pair per "
             "type, every SI prefix and every documentation row is checked "
             "against an independent reference table, so the enumeration is "
             "complete.",
        ref='4/C20'),
}

NOT_YET = "check not built yet in this revision (planned, see DESIGN.md)"


def main():
    props = [json.loads(line)['id']
             for line in open(os.path.join(HERE, 'properties.jsonl'))]
    checks = []
    for pid in props:
        c = CHECKS.get(pid)
        if c is None or not os.path.exists(
                os.path.join(HERE, 'vq', 'props', pid.lower() + '.py')):
            continue
        checks.append({
            'property_id': pid,
            'quick_cmd': f'./check {pid} quick',
            'thorough_cmd': f'./check {pid} thorough',
            'evidence_file': f'/verif/evidence/{pid}.json',
            'replay_cmd_template': f'./check {pid} --replay {{path}}',
            'engine': c['engine'],
            'level_claimed': {'category': 'model_checking',
                              'text': c['text'],
                              'design_ref': c['ref']},
            'level_note': TRUST,
            'technique': c['technique'],
        })
    claimed = {c['property_id'] for c in checks}
    manifest = {
        'version': 1,
        'setup_cmd': './check selftest',
        'hooks': {
            'guard': 'QUANTITY_VERIF',
            'enable': 'no source hooks: checks import /repo/src directly '
                      '(the launcher exports QUANTITY_VERIF=1 for '
                      'completeness)',
            'baseline_off_cmd': 'cd /repo && /venv/bin/python -m pytest -q '
                                '-p no:cacheprovider --timeout=900',
            'source_commits': [],
            'add_only': True,
        },
        'engines': [
            {'name': 'V', 'path': 'vq/core.py',
             'serves_properties': sorted(
                 p for p in claimed if 'V' in CHECKS[p]['engine']),
             'kind_free_text': 'in-process explicit-state exploration of '
                               'immutable values with a lock-step reference '
                               'model, partitioned over forked workers'},
            {'name': 'H', 'path': 'vq/hist.py',
             'serves_properties': sorted(
                 p for p in claimed if 'H' in CHECKS[p]['engine']),
             'kind_free_text': 'stateless DFS over declaration / update '
                               'histories; every node is a fork() snapshot '
                               'of the interpreter holding the real '
                               'registries'},
        ],
        'checks': checks,
        'notes': 'All checks are bounded exhaustive explorations of the real '
                 'implementation (no sampling). See DESIGN.md.',
        'not_applicable': [{'property_id': p, 'reason': NOT_YET}
                           for p in props if p not in claimed],
    }
    with open(os.path.join(HERE, 'MANIFEST.json'), 'w') as f:
        json.dump(manifest, f, indent=1)
        f.write('\n')
    print(f"{len(checks)} checks claimed, "
          f"{len(manifest['not_applicable'])} not claimed")


if __name__ == '__main__':
    main()
