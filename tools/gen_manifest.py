#!/usr/bin/env python3
"""Regenerate MANIFEST.json from the table below (keeps it valid)."""
import json
import os

HERE = os.path.dirname(os.path.dirname(os.path.abspath(__file__)))

TRUST = ("CPython 3.12, fractions, decimalfp's pure-Python Decimal (+ "
         "equivalent _approx_rational shim, self-tested), the reference "
         "model named in level_claimed; bounds as stated in the evidence file")

CHECKS = {
    'C01': dict(
        engine='V+fork',
        technique="model checking: bounded exhaustive explicit-state "
                  "exploration of conversion paths (all units x amount "
                  "alphabet, depth 2/3; all user definition trees up to 2/3 "
                  "units, each world in a fresh fork) against a Fraction "
                  "scale-table reference model",
        text="Every conversion path of bounded depth from every (unit, "
             "amount) of a fixed alphabet is executed on the real library in "
             "the predefined catalogue and in every enumerated user world, "
             "each step compared with a scale table kept by the harness.",
        ref='4/C01'),
    'C02': dict(
        engine='V+fork',
        technique="model checking: exhaustive enumeration of all 12769 "
                  "ordered unit pairs x {*,/} x operand kinds, powers -3..3, "
                  "number kinds, and of every subset of optional derived "
                  "types in forked user worlds, against dimension arithmetic "
                  "+ declared-type oracle",
        text="All ordered pairs of declared units (catalogue and user "
             "worlds in which each optional result type is declared or not) "
             "are multiplied/divided/raised on the real operators; type, "
             "unit, value or UndefinedResultError are decided by dimension "
             "arithmetic on the harness's own directory.",
        ref='4/C02'),
    'C03': dict(
        engine='V',
        technique="model checking: exhaustive enumeration of type pairs x "
                  "operators, number kinds x operators x operand order, and "
                  "of all unit pairs/triples x amount alphabet for the group "
                  "laws, against Fraction reference values",
        text="Every ordered pair of distinct types and every number kind is "
             "pushed through every operator; group laws are checked on all "
             "unit pairs and triples of every linear type with exact "
             "reference values.",
        ref='4/C03'),
    'C04': dict(
        engine='V',
        technique="model checking: exhaustive enumeration of unit pairs x "
                  "amounts (incl. exactly-equal partners and +-1e-12 "
                  "neighbours, Decimal and Fraction holders) x six operators; "
                  "sorted() over all arrangements of 4-multisets",
        text="The six comparison operators are compared with the same "
             "operators on Fraction reference values for all unit pairs and "
             "an amount alphabet that contains cross-unit ties and near "
             "ties in both number representations.",
        ref='4/C04'),
    'C05': dict(
        engine='V+fork',
        technique="model checking: exhaustive enumeration of producing "
                  "operations x grid-adjacent amounts x units x 8 default "
                  "rounding modes (configuration space) against a "
                  "round-once oracle cross-validated with stdlib decimal",
        text="Every producing operation is run on amounts around grid "
             "points in every unit of the quantized worlds under all 8 "
             "default rounding modes; the stored amount must be the exact "
             "result rounded exactly once.",
        ref='4/C05'),
    'C06': dict(
        engine='V',
        technique="model checking: exhaustive enumeration of all ratio "
                  "lists up to length 3/4 over a ratio alphabet x quantities "
                  "x disperse flag x rounding modes; conservation and "
                  "deviation invariants on every execution",
        text="allocate() is run on every ratio list of bounded length; "
             "conservation, immutability of the receiver and the deviation "
             "bounds are evaluated on every result.",
        ref='4/C06'),
    'C07': dict(
        engine='V',
        technique="model checking: exhaustive enumeration of all item "
                  "sequences up to length 3/4 over an element universe, all "
                  "pairs/triples of short terms, against a denotational "
                  "model (Fraction, exponent vector)",
        text="All terms up to a length bound over base, derived, mutually "
             "convertible and numeric elements are constructed, normalised, "
             "compared, hashed, multiplied, divided and raised; every result "
             "is compared with its denotation.",
        ref='4/C07'),
    'C08': dict(
        engine='V',
        technique="model checking: complete enumeration of the bundled ISO "
                  "4217 table and of ordered currency pairs x operators, "
                  "against an independent regex parse of the XML",
        text="Every functional currency of the table is registered twice "
             "and compared with an independent parse; every ordered pair of "
             "distinct currencies (quick: 30, thorough: all 167) goes "
             "through every mixing operator with no converter active.",
        ref='4/C08'),
    'C09': dict(
        engine='V',
        technique="model checking: exhaustive enumeration of a grid of unit "
                  "multiples x mantissa x exponent x number kind x currency "
                  "pair, and of all ordered pairs of a rate sub-grid for "
                  "triangulation, against the normal-form predicate",
        text="Every rate of the input grid is constructed (or must be "
             "rejected), inverted and triangulated with every other rate of a "
             "sub-grid; normal form and accuracy are decided with Fractions.",
        ref='4/C09'),
    'C10': dict(
        engine='V+fork',
        technique="model checking: exhaustive enumeration of money amounts "
                  "x rates x operand orders x {*,/}, and of every subset of "
                  "declared compound units in forked worlds",
        text="All money x rate combinations and all price x rate "
             "combinations in worlds where each compound target unit is "
             "declared or missing are executed and compared with the exact "
             "product rounded once.",
        ref='4/C10'),
    'C11': dict(
        engine='H',
        technique="model checking: stateless exhaustive exploration of all "
                  "update histories up to depth 3/4 on fresh converter "
                  "objects, all lookups after every step, against a "
                  "rate-table reference model",
        text="Every sequence of update calls over the event alphabet up to "
             "the depth bound is executed on a fresh MoneyConverter; after "
             "every step all (currency pair, date) lookups are compared with "
             "a dict model.",
        ref='4/C11'),
    'C12': dict(
        engine='H',
        technique="model checking: explicit-state BFS over register / "
                  "unregister / enter / leave / leave-by-exception histories "
                  "with fork() snapshots, state = converter list, against a "
                  "LIFO stack model",
        text="All histories up to depth 6/8 over 2/3 converters are executed "
             "on the real Money registry (one fork per transition); the "
             "converter list and the conversion result are compared with a "
             "Python list model in every state.",
        ref='4/C12'),
    'C13': dict(
        engine='V',
        technique="model checking: exhaustive enumeration of amounts (k/8, "
                  "thirds, tie neighbours; Decimal and Fraction) x quanta x "
                  "units x 8 modes (explicit and default) against the "
                  "rounding oracle",
        text="quantize and round are run on a grid that contains every tie "
             "and its neighbours in both representations under all 8 modes.",
        ref='4/C13'),
    'C14': dict(
        engine='V+fork',
        technique="model checking: exhaustive enumeration of temperature "
                  "unit pairs/triples x amounts, and of all user conversion "
                  "tables with up to 2/3 rows (mapping and list form) in "
                  "forked worlds",
        text="All ordered pairs and triples of temperature units and every "
             "user table up to the row bound are exercised in every "
             "direction, compared with exact affine arithmetic.",
        ref='4/C14'),
    'C15': dict(
        engine='H',
        technique="model checking: stateless DFS over all declaration "
                  "histories up to depth 4/5 (fork() snapshot per node), "
                  "directory invariant evaluated in every state against a "
                  "directory model",
        text="Every sequence of valid and invalid declarations up to the "
             "depth bound is executed on the real registries; after every "
             "step the complete directory is compared with the harness's "
             "model.",
        ref='4/C15'),
    'C16': dict(
        engine='H',
        technique="model checking: fault enumeration inside the history "
                  "explorer -- an invalid declaration at every position of "
                  "every history, differential fingerprint comparison with "
                  "the history without it",
        text="For every explored history, every invalid step is injected at "
             "every position; the fingerprint of all observable directories "
             "and results must equal that of the history without the step.",
        ref='4/C16'),
    'C17': dict(
        engine='H',
        technique="model checking: stateless DFS over all interleavings of "
                  "declarations and operations up to depth 4/5 (fork per "
                  "node), pairwise comparison of results grouped by declared "
                  "set",
        text="All interleavings of declarations and (repeated, premature, "
             "reordered) operations are executed; results are compared with "
             "the oracle and pairwise across histories.",
        ref='4/C17'),
    'C18': dict(
        engine='V',
        technique="model checking: exhaustive enumeration of numeric input "
                  "kinds x all registered units x both factories, text round "
                  "trips, and a token grammar of malformed strings",
        text="Every numeric spelling of the alphabet is constructed in every "
             "registered unit through both factories, printed and parsed "
             "back; every malformed string of a small grammar must raise "
             "QuantityError.",
        ref='4/C18'),
    'C19': dict(
        engine='V',
        technique="model checking: exhaustive enumeration of pairs the "
                  "implementation reports equal (quantities across all unit "
                  "pairs, same-scale units, equal terms, equal rates)",
        text="All pairs of equal objects constructible from the alphabets "
             "are enumerated and their hashes compared.",
        ref='4/C19'),
    'C20': dict(
        engine='V',
        technique="model checking (degenerate: complete enumeration of a "
                  "finite catalogue -- every unit, ordered pair, prefix, "
                  "documentation row) against a hand-entered reference table",
        text="The catalogue is finite; every unit, every ordered pair per "
             "type, every SI prefix and every documentation row is checked "
             "against an independent reference table, so the enumeration is "
             "complete.",
        ref='4/C20'),
}

NOT_YET = "check not built yet in this revision (planned, see DESIGN.md)"


def main():
    props = [json.loads(line)['id']
             for line in open(os.path.join(HERE, 'properties.jsonl'))]
    checks = []
    for pid in props:
        c = CHECKS.get(pid)
        if c is None or not os.path.exists(
                os.path.join(HERE, 'vq', 'props', pid.lower() + '.py')):
            continue
        checks.append({
            'property_id': pid,
            'quick_cmd': f'./check {pid} quick',
            'thorough_cmd': f'./check {pid} thorough',
            'evidence_file': f'/verif/evidence/{pid}.json',
            'replay_cmd_template': f'./check {pid} --replay {{path}}',
            'engine': c['engine'],
            'level_claimed': {'category': 'model_checking',
                              'text': c['text'],
                              'design_ref': c['ref']},
            'level_note': TRUST,
            'technique': c['technique'],
        })
    claimed = {c['property_id'] for c in checks}
    manifest = {
        'version': 1,
        'setup_cmd': './check selftest',
        'hooks': {
            'guard': 'QUANTITY_VERIF',
            'enable': 'no source hooks: checks import /repo/src directly '
                      '(the launcher exports QUANTITY_VERIF=1 for '
                      'completeness)',
            'baseline_off_cmd': 'cd /repo && /venv/bin/python -m pytest -q '
                                '-p no:cacheprovider --timeout=900',
            'source_commits': [],
            'add_only': True,
        },
        'engines': [
            {'name': 'V', 'path': 'vq/core.py',
             'serves_properties': sorted(
                 p for p in claimed if 'V' in CHECKS[p]['engine']),
             'kind_free_text': 'in-process explicit-state exploration of '
                               'immutable values with a lock-step reference '
                               'model, partitioned over forked workers'},
            {'name': 'H', 'path': 'vq/hist.py',
             'serves_properties': sorted(
                 p for p in claimed if 'H' in CHECKS[p]['engine']),
             'kind_free_text': 'stateless DFS over declaration / update '
                               'histories; every node is a fork() snapshot '
                               'of the interpreter holding the real '
                               'registries'},
        ],
        'checks': checks,
        'notes': 'All checks are bounded exhaustive explorations of the real '
                 'implementation (no sampling). See DESIGN.md.',
        'not_applicable': [{'property_id': p, 'reason': NOT_YET}
                           for p in props if p not in claimed],
    }
    with open(os.path.join(HERE, 'MANIFEST.json'), 'w') as f:
        json.dump(manifest, f, indent=1)
        f.write('\n')
    print(f"{len(checks)} checks claimed, "
          f"{len(manifest['not_applicable'])} not claimed")


if __name__ == '__main__':
    main()
