#!/usr/bin/env python3
"""Mutation sweep: classic token mutations of the library sources.

Phase 1: every mutant is applied in a scratch worktree of /repo HEAD; mutants
         that still import and pass the repository's test suite survive.
Phase 2: every survivor is run against the quick checks (fast ones first);
         survivors no check reports are listed for manual triage (they are
         either equivalent mutants or gaps).

Usage: mutsweep.py <outdir> [jobs] [file ...]
Nothing is written to /repo's working tree; worktrees live under /tmp and are
removed as soon as a mutant is done.
"""
import io
import json
import os
import subprocess
import sys
import tokenize
from concurrent.futures import ThreadPoolExecutor

REPO = '/repo'
FILES = ['src/quantity/__init__.py', 'src/quantity/term.py',
         'src/quantity/converter.py', 'src/quantity/money/__init__.py',
         'src/quantity/registry.py', 'src/quantity/utils.py',
         'src/quantity/cwdmeta.py']
OP_SWAPS = {'<': ['<='], '<=': ['<'], '>': ['>='], '>=': ['>'],
            '==': ['!='], '!=': ['=='], '+': ['-'], '-': ['+'],
            '*': ['/'], '/': ['*'], '+=': ['-='], '-=': ['+='],
            '*=': ['/=']}
NAME_SWAPS = {'and': ['or'], 'or': ['and'], 'True': ['False'],
              'False': ['True'], 'break': ['continue'], 'is': ['=='],
              'min': ['max'], 'max': ['min']}
NUM_SWAPS = {'0': ['1'], '1': ['0', '2'], '2': ['1', '3'], '6': ['5', '7'],
             '10': ['9'], '-1': ['1']}
FAST = ['C20', 'C18', 'C19', 'C09', 'C10', 'C08', 'C13', 'C05', 'C04', 'C01',
        'C02', 'C03', 'C14', 'C12']
SLOW = ['C06', 'C17', 'C11', 'C15', 'C16', 'C07']


def code_start_line(src):
    """first line after the module docstring / __all__ header"""
    toks = list(tokenize.generate_tokens(io.StringIO(src).readline))
    for t in toks:
        if t.type == tokenize.STRING:
            return t.end[0] + 1
        if t.type not in (tokenize.COMMENT, tokenize.NL, tokenize.NEWLINE,
                          tokenize.ENCODING):
            return t.start[0]
    return 1


def mutants_of(path):
    src = open(os.path.join(REPO, path)).read()
    lines = src.splitlines(keepends=True)
    start = code_start_line(src)
    out = []
    toks = list(tokenize.generate_tokens(io.StringIO(src).readline))
    depth_stack = []
    for i, t in enumerate(toks):
        if t.start[0] < start or t.start[0] > len(lines) or \
                t.type in (tokenize.ENDMARKER, tokenize.NEWLINE, tokenize.NL,
                           tokenize.INDENT, tokenize.DEDENT):
            continue
        line = lines[t.start[0] - 1]
        stripped = line.strip()
        if stripped.startswith(('import ', 'from ', '@overload', 'def ',
                                'class ', '"""', '#')):
            continue
        if ' -> ' in line and stripped.endswith(':'):
            continue
        repl = []
        if t.type == tokenize.OP and t.string in OP_SWAPS:
            # skip type-annotation / keyword-default / unpacking contexts
            if t.string in ('*', '-') and toks[i - 1].type == tokenize.OP \
                    and toks[i - 1].string in ('(', ',', '=', '[', ':',
                                               'return'):
                continue
            repl = OP_SWAPS[t.string]
        elif t.type == tokenize.NAME and t.string in NAME_SWAPS:
            if t.string == 'is' and toks[i + 1].string == 'not':
                repl = ['==']           # `is not` -> `== not` is invalid
                continue
            repl = NAME_SWAPS[t.string]
        elif t.type == tokenize.NUMBER and t.string in NUM_SWAPS:
            repl = NUM_SWAPS[t.string]
        for r in repl:
            (l0, c0), (l1, c1) = t.start, t.end
            if l0 != l1:
                continue
            new_line = line[:c0] + r + line[c1:]
            out.append({'file': path, 'line': l0, 'col': c0,
                        'old': t.string, 'new': r,
                        'old_line': line.rstrip('\n'),
                        'new_line': new_line.rstrip('\n')})
    return out


def sh(cmd, **kw):
    return subprocess.run(cmd, shell=True, capture_output=True, text=True,
                          **kw)


def phase1(m, idx, outdir):
    wt = f'/tmp/ms-wt-{os.getpid()}-{idx}'
    sh(f'git -C {REPO} worktree add -q --detach {wt} HEAD')
    try:
        p = os.path.join(wt, m['file'])
        lines = open(p).read().splitlines(keepends=True)
        lines[m['line'] - 1] = m['new_line'] + '\n'
        open(p, 'w').write(''.join(lines))
        env = dict(os.environ, PYTHONPATH=f'{wt}/src',
                   PYTHONDONTWRITEBYTECODE='1')
        r = subprocess.run(
            ['/venv/bin/python', '-m', 'pytest', '-q', '-x', '-p',
             'no:cacheprovider', 'tests'], cwd=wt, env=env,
            capture_output=True, text=True, timeout=900)
        tail = r.stdout.strip().splitlines()[-1] if r.stdout.strip() else ''
        m['suite'] = tail[:80]
        m['survives_tests'] = r.returncode == 0
        if m['survives_tests']:
            d = sh(f'git -C {wt} diff').stdout
            open(os.path.join(outdir, f'm{idx:04d}.diff'), 'w').write(d)
    except subprocess.TimeoutExpired:
        m['suite'] = 'timeout'
        m['survives_tests'] = False
    finally:
        sh(f'git -C {REPO} worktree remove --force {wt}')
    return m


RELEVANT = {
    'src/quantity/term.py': ['C07', 'C02', 'C01', 'C20', 'C19', 'C15', 'C17'],
    'src/quantity/registry.py': ['C02', 'C15', 'C16', 'C17', 'C07'],
    'src/quantity/cwdmeta.py': ['C02', 'C07', 'C15', 'C17'],
    'src/quantity/money/__init__.py': ['C09', 'C10', 'C08', 'C05', 'C12',
                                       'C19', 'C11', 'C16', 'C06'],
    'src/quantity/converter.py': ['C14', 'C12', 'C03'],
    'src/quantity/utils.py': ['C03', 'C06', 'C08', 'C05'],
}


def trivially_equivalent(m):
    """`x is None` -> `x == None` and the like cannot change behaviour"""
    if (m['old'], m['new']) == ('is', '=='):
        rest = m['new_line'][m['col'] + 2:].strip()
        if rest.startswith('None') or rest.startswith('not'):
            return True
    return False


def phase2(m, idx, outdir):
    diff = os.path.join(outdir, f'm{idx:04d}.diff')
    if trivially_equivalent(m):
        m['caught_by'] = 'equivalent (is None -> == None)'
        return m
    groups = (RELEVANT[m['file']],) if m['file'] in RELEVANT \
        else (FAST, SLOW)
    for group in groups:
        for prop in group:
            r = sh(f'/verif/tools/try_patch.sh {diff} quick {prop}',
                   timeout=3000)
            if 'VIOLATION' in r.stdout:
                m['caught_by'] = prop
                m['first_violation'] = [l for l in r.stdout.splitlines()
                                        if l.startswith('VIOLATION')][0][:300]
                return m
            if 'Traceback' in r.stdout or 'DOES NOT APPLY' in r.stdout:
                m.setdefault('check_errors', []).append(
                    (prop, r.stdout[-300:]))
    m['caught_by'] = None
    return m


def main():
    outdir = sys.argv[1]
    jobs = int(sys.argv[2]) if len(sys.argv) > 2 else 6
    files = sys.argv[3:] or FILES
    os.makedirs(outdir, exist_ok=True)
    p1 = os.path.join(outdir, 'phase1.json')
    if os.path.exists(p1):
        res = json.load(open(p1))
        muts = res
        print(f"phase 1 results reused ({len(res)} mutants)", flush=True)
    else:
        muts = []
        for f in files:
            muts += mutants_of(f)
        print(f"{len(muts)} mutants", flush=True)
        with ThreadPoolExecutor(jobs) as ex:
            res = list(ex.map(lambda im: phase1(im[1], im[0], outdir),
                              enumerate(muts)))
    surv = [(i, m) for i, m in enumerate(res) if m['survives_tests']]
    print(f"{len(surv)} of {len(muts)} mutants pass the repository's test "
          "suite", flush=True)
    json.dump(res, open(os.path.join(outdir, 'phase1.json'), 'w'), indent=1)
    done = []
    with ThreadPoolExecutor(3) as ex:
        results = ex.map(lambda im: (im[0], phase2(im[1], im[0], outdir)),
                         surv)
        results = list(_stream(results, done, outdir))
    missed = [m for m in done if m['caught_by'] is None]
    print(f"SUMMARY: {len(muts)} mutants, {len(surv)} test-silent, "
          f"{len(surv) - len(missed)} caught by a check or trivially "
          f"equivalent, {len(missed)} not caught (triage: equivalent or gap)")
    for m in missed:
        print(f"  NOT CAUGHT {m['file']}:{m['line']}: {m['old_line'].strip()}"
              f"  ==>  {m['new_line'].strip()}")
    return


def _stream(results, done, outdir):
    for i, m in results:
        done.append(m)
        print(f"m{i:04d} {m['file']}:{m['line']} {m['old']!r}->{m['new']!r} "
              f"caught_by={m['caught_by']} :: {m['new_line'].strip()[:90]}",
              flush=True)
        json.dump(done, open(os.path.join(outdir, 'phase2.json'), 'w'),
                  indent=1)
        yield m


def _unused(done, muts, surv):
    missed = [m for m in done if m['caught_by'] is None]
    print(f"SUMMARY: {len(muts)} mutants, {len(surv)} test-silent, "
          f"{len(surv) - len(missed)} caught by a check, {len(missed)} "
          "not caught (triage: equivalent or gap)")
    for m in missed:
        print(f"  NOT CAUGHT {m['file']}:{m['line']}: {m['old_line'].strip()}"
              f"  ==>  {m['new_line'].strip()}")


if __name__ == '__main__':
    main()
