#!/usr/bin/env python3
"""Regenerate the seeded-change table inside DESIGN.md."""
import subprocess
p = '/verif/DESIGN.md'
s = open(p).read()
t = subprocess.check_output(['python3', '/verif/tools/seed_table.py']).decode().strip()
a, b = '<!-- SEED_TABLE_BEGIN -->', '<!-- SEED_TABLE_END -->'
i, j = s.index(a) + len(a), s.index(b)
open(p, 'w').write(s[:i] + '\n' + t + '\n' + s[j:])
print(t.count('\n') - 1, 'seeded changes')
