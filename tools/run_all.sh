#!/bin/bash
# tools/run_all.sh <tier> <seed> [props...]: run checks, one summary line each
tier=${1:-quick}; seed=${2:-0}; shift 2
props=${@:-C01 C02 C03 C04 C05 C06 C07 C08 C09 C10 C11 C12 C13 C14 C15 C16 C17 C18 C19 C20}
cd /verif
for p in $props; do
  s=$(date +%s)
  out=$(VERIF_SEED=$seed ./check $p $tier 2>&1); rc=$?
  e=$(( $(date +%s) - s ))
  echo "$out" | grep -E "^VIOLATION|^KNOWN|Traceback|Error" | cut -c1-300
  echo "$out" | grep -E "^C[0-9]+ " | sed "s/^/[rc=$rc ${e}s] /" | cut -c1-260
done
