#!/usr/bin/env python3
"""Print the markdown table of seeded changes from seeded/*/meta.json."""
import glob, json, os
rows = []
for f in sorted(glob.glob('/verif/seeded/*/meta.json')):
    m = json.load(open(f))
    note = (m.get('needs_to_manifest') or '').strip().splitlines()
    first = ' '.join(note)[:230].replace('|', '/')
    rows.append((m['name'], ', '.join(m['checks_run']['reported_violation']) or '—',
                 m['confirmed']['test_suite_with_change'].split(' in ')[0], first))
print('| seeded change | caught by (quick tier) | suite with change | what it needs to manifest |')
print('|---|---|---|---|')
for r in rows:
    print('| `%s` | %s | %s | %s |' % r)
