#!/bin/bash
# tools/try_patch.sh <patch.diff|REV:<commit>> <tier> <prop> [<prop>...]
# Runs the named checks against a scratch worktree of /repo with the patch
# applied (or at the given revision); evidence/replays go to a scratch dir.
set -u
patch="$1"; tier="$2"; shift 2
wt=$(mktemp -d /tmp/vq-wt.XXXXXX); out=$(mktemp -d /tmp/vq-out.XXXXXX)
rmdir "$wt"
if [[ "$patch" == REV:* ]]; then
  git -C /repo worktree add -q --detach "$wt" "${patch#REV:}" || exit 2
else
  git -C /repo worktree add -q --detach "$wt" HEAD || exit 2
  if ! git -C "$wt" apply --3way "$patch" 2>/dev/null && ! git -C "$wt" apply "$patch"; then
     echo "PATCH DOES NOT APPLY: $patch"; git -C /repo worktree remove --force "$wt"; rm -rf "$out"; exit 3
  fi
fi
rc=0
for p in "$@"; do
  VQ_REPO="$wt" VQ_OUT="$out" timeout 1800 /verif/check "$p" "$tier" 2>&1 | grep -E "VIOLATION|KNOWN-FINDING|^C[0-9]+ |Error|error" | cut -c1-420
  [[ ${PIPESTATUS[0]} -ne 0 ]] && rc=1
done
git -C /repo worktree remove --force "$wt"; rm -rf "$out"
exit $rc
