"""Bounded exhaustive exploration of mamrhein/quantity (see DESIGN.md)."""
