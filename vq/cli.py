"""Command line of the checks."""
import importlib
import json
import os
import sys
import time

from . import env, core


def main(argv):
    if not argv:
        print(__doc__)
        return 2
    if argv[0] == 'selftest':
        from . import selftest
        return selftest.main()
    prop = argv[0].upper()
    rest = argv[1:]
    tier = os.environ.get('VERIF_TIER') or 'quick'
    seed = int(os.environ.get('VERIF_SEED') or 0)
    replay = None
    i = 0
    while i < len(rest):
        a = rest[i]
        if a in ('quick', 'thorough'):
            tier = a
        elif a == '--replay':
            replay = rest[i + 1]
            i += 1
        elif a == '--seed':
            seed = int(rest[i + 1])
            i += 1
        else:
            print(f"unknown argument {a!r}", file=sys.stderr)
            return 2
        i += 1
    if tier not in ('quick', 'thorough'):
        tier = 'quick'
    env.boot()
    core.CURRENT_PROP = prop
    mod = importlib.import_module(f'vq.props.{prop.lower()}')
    if replay is not None:
        with open(replay) as f:
            body = json.load(f)
        res = mod.replay(body['case'])
        want = body.get('signature')
        hit = [r for r in res if r[0] == want] or res
        for sig, msg in res:
            print(f"replay: {sig} :: {msg}")
        if hit:
            print(f"VIOLATION property={prop} replay={replay}")
            return 1
        print(f"replay: property {prop} holds on this case")
        return 0
    t0 = time.time()
    try:
        st, meta = mod.run(tier, seed)
    except Exception as exc:
        st = core.abort_violation(exc, 'run')
        if st is None:
            raise
        meta = dict(rule='aborted before the exploration completed',
                    level_text='aborted', exhaustive=False)
        st.caps.append('aborted')
        st.state(('aborted',))
        st.transitions = st.evaluations = 1
    return core.finish(prop, tier, seed, st, t0, **meta)


if __name__ == '__main__':
    sys.exit(main(sys.argv[1:]))
