"""Runner: statistics, violations, replay files, known findings, evidence."""
import hashlib
import json
import multiprocessing as mp
import os
import subprocess
import sys
import time
import traceback
from collections import Counter

from . import env

MAX_CASES_PER_SIG = 3
# scratch runs (mutant evaluation) redirect evidence and replays
OUT = os.environ.get('VQ_OUT') or env.VERIF
NCPU = int(os.environ.get('VQ_JOBS', '16'))


def h64(obj):
    """Stable 64-bit hash of a canonical (repr-able) object."""
    return int.from_bytes(
        hashlib.blake2b(repr(obj).encode(), digest_size=8).digest(), 'big')


def guarded(prop):
    """Executor decorator: an exception escaping the executor (the oracle
    expected a value and the library raised something the executor did not
    anticipate) is reported as a violation instead of aborting the run."""
    def deco(fn):
        import functools

        @functools.wraps(fn)
        def wrapper(*a, **kw):
            try:
                return fn(*a, **kw)
            except Exception as exc:
                tb = traceback.extract_tb(exc.__traceback__)
                where = next((f"{os.path.basename(fr.filename)}:{fr.lineno}"
                              for fr in reversed(tb)
                              if '/quantity/' in fr.filename), '')
                return [(f"{prop}:unexpected-exception:{fn.__name__}:"
                         f"{type(exc).__name__}",
                         f"{fn.__name__}{a[1:]!r}: {type(exc).__name__}: "
                         f"{exc} [{where}]")]
        return wrapper
    return deco


class Stats:
    """What one partition of an exploration covered."""

    def __init__(self):
        self.evaluations = 0        # oracle comparisons
        self.transitions = 0        # real operations executed
        self.paths = 0              # maximal paths / histories executed
        self.states = set()         # h64 of canonical states reached
        self.nontrivial = set()     # h64 of distinct non-trivial cases
        self.outcomes = Counter()   # outcome classes observed
        self.viol = {}              # signature -> [count, msg, [cases]]
        self.samples = []
        self.caps = []              # caps that were hit (=> not exhaustive)
        self.extra = {}

    def state(self, canon, nontrivial=False):
        k = h64(canon)
        self.states.add(k)
        if nontrivial:
            self.nontrivial.add(k)

    def violation(self, sig, msg, case):
        ent = self.viol.get(sig)
        if ent is None:
            ent = self.viol[sig] = [0, msg, []]
        ent[0] += 1
        if len(ent[2]) < MAX_CASES_PER_SIG:
            ent[2].append({'case': case, 'msg': msg})

    def sample(self, s, cap=6):
        if len(self.samples) < cap:
            self.samples.append(s)

    def merge(self, o):
        self.evaluations += o.evaluations
        self.transitions += o.transitions
        self.paths += o.paths
        self.states |= o.states
        self.nontrivial |= o.nontrivial
        self.outcomes.update(o.outcomes)
        for sig, (n, msg, cases) in o.viol.items():
            ent = self.viol.get(sig)
            if ent is None:
                self.viol[sig] = [n, msg, list(cases)]
            else:
                ent[0] += n
                for c in cases:
                    if len(ent[2]) < MAX_CASES_PER_SIG:
                        ent[2].append(c)
        for s in o.samples:
            self.sample(s, cap=12)
        self.caps.extend(o.caps)
        for k, v in o.extra.items():
            if isinstance(v, (int, float)) and isinstance(
                    self.extra.get(k, 0), (int, float)):
                self.extra[k] = self.extra.get(k, 0) + v
            else:
                self.extra.setdefault(k, v)


_WORK = None


CURRENT_PROP = 'C??'


def abort_violation(exc, what):
    """An exception that escaped a whole partition / the run function.  If it
    was raised from library code (the library refused something the world
    set-up or an unguarded step relies on) it is reported as a violation;
    a fault of the harness itself stays an internal error."""
    if type(exc).__name__ == 'SetupRejected':
        st = Stats()
        st.violation(f"{CURRENT_PROP}:setup-declaration-rejected:"
                     f"{exc.res[1]}", f"{what}: {exc}",
                     {'aborted': what, 'event': exc.ev})
        return st
    if type(exc).__name__ == 'SetupViolated':
        st = Stats()
        st.violation(f"{CURRENT_PROP}:setup:{exc.kind}", f"{what}: {exc}",
                     {'aborted': what})
        return st
    tb = traceback.extract_tb(exc.__traceback__)
    lib = [fr for fr in tb if '/quantity/' in fr.filename
           and '/verif/' not in fr.filename]
    if not lib:
        return None
    fr = lib[-1]
    st = Stats()
    st.violation(f"{CURRENT_PROP}:aborted:{type(exc).__name__}",
                 f"{what}: {type(exc).__name__}: {exc} raised at "
                 f"{os.path.basename(fr.filename)}:{fr.lineno} "
                 f"({fr.line})", {'aborted': what})
    return st


def _call(part):
    fn, args = _WORK
    try:
        return fn(part, *args)
    except BaseException as exc:
        st = abort_violation(exc, f"partition {str(part)[:120]}")
        if st is not None:
            return st
        st = Stats()
        st.extra['worker_error'] = traceback.format_exc()
        return st


def pmap(fn, parts, args=(), jobs=None, fresh=False):
    """Run fn(part, *args) -> Stats over all parts on forked workers.
    fresh=True: every part runs in its own fork of this (pristine) process,
    so declarations made by one part are invisible to all others."""
    global _WORK
    jobs = jobs or NCPU
    total = Stats()
    parts = list(parts)
    if not parts:
        return total
    if (jobs == 1 or len(parts) == 1) and not fresh:
        _WORK = (fn, args)
        for p in parts:
            st = _call(p)
            if 'worker_error' in st.extra:
                raise RuntimeError("worker failed:\n"
                                   + st.extra['worker_error'])
            total.merge(st)
        return total
    _WORK = (fn, args)
    ctx = mp.get_context('fork')
    with ctx.Pool(min(jobs, len(parts)),
                  maxtasksperchild=1 if fresh else None) as pool:
        for st in pool.imap_unordered(_call, parts, chunksize=1):
            if 'worker_error' in st.extra:
                pool.terminate()
                raise RuntimeError("worker failed:\n"
                                   + st.extra['worker_error'])
            total.merge(st)
    return total


# ---------------------------------------------------------------------------
# known findings

def load_known():
    path = os.path.join(env.VERIF, 'known_findings.json')
    try:
        with open(path) as f:
            return json.load(f)
    except FileNotFoundError:
        return []


def write_replay(prop, sig, entry):
    d = os.path.join(OUT, 'replays', prop)
    os.makedirs(d, exist_ok=True)
    body = {'property': prop, 'signature': sig, 'message': entry['msg'],
            'case': entry['case']}
    blob = json.dumps(body, indent=1, sort_keys=True, default=str)
    name = hashlib.sha1(blob.encode()).hexdigest()[:16] + '.json'
    path = os.path.join(d, name)
    with open(path, 'w') as f:
        f.write(blob)
    return path


def run_replay_subprocess(prop, path):
    """Re-execute a replay file in a fresh process; -> (exit code, stdout)."""
    cmd = [os.path.join(env.VERIF, 'check'), prop, '--replay', path]
    r = subprocess.run(cmd, capture_output=True, text=True, timeout=600)
    return r.returncode, r.stdout


def finish(prop, tier, seed, st, t0, rule, level_text, assumptions=(),
           exhaustive=None, confirm=True):
    """Report violations, write evidence, return exit code."""
    known = [k for k in load_known() if k.get('property') == prop]
    open_sigs = {k['signature']: k for k in known
                 if k.get('status') == 'open'}
    new_viol = []
    known_hit = []
    for sig in sorted(st.viol):
        n, msg, cases = st.viol[sig]
        if sig in open_sigs:
            known_hit.append((sig, n, open_sigs[sig]))
            continue
        new_viol.append((sig, n, msg, cases))
    for sig, n, k in known_hit:
        print(f"KNOWN-FINDING: property={prop} {sig}: {k.get('what', '')} "
              f"[{n} case(s) this run]")
    rc = 0
    for sig, n, msg, cases in new_viol:
        rc = 1
        path = write_replay(prop, sig, cases[0])
        note = ''
        if confirm:
            try:
                c1, o1 = run_replay_subprocess(prop, path)
                c2, o2 = run_replay_subprocess(prop, path)
                if o1 != o2 or c1 != c2:
                    print(f"INTERNAL: replay of {path} is not deterministic",
                          file=sys.stderr)
                    note = ' replay-nondeterministic'
                elif c1 != 1:
                    note = ' (needs the evaluation history of the run: ' \
                           'not reproduced in isolation)'
            except Exception as exc:       # pragma: no cover
                note = f' (replay failed to run: {exc})'
        print(f"VIOLATION property={prop} replay={path} signature={sig} "
              f"count={n}{note} :: {msg}")
        for extra in cases[1:]:
            write_replay(prop, sig, extra)
    if exhaustive is None:
        exhaustive = not st.caps
    cov = {
        'states': len(st.states),
        'transitions': st.transitions,
        'traces_validated_against_impl': st.paths,
        'evaluations': st.evaluations,
        'distinct_nontrivial': len(st.nontrivial),
        'rule': rule,
        'samples': st.samples[:12] or ['(no sample recorded)'],
        'exhaustive': bool(exhaustive),
        'distinct_outcomes': len(st.outcomes),
        'outcomes': {str(k): v for k, v in st.outcomes.most_common(40)},
        'caps_hit': st.caps,
        'known_findings_seen': [s for s, _, _ in known_hit],
        'explanation': level_text,
    }
    for k, v in st.extra.items():
        cov.setdefault(k, v)
    ev = {
        'property_id': prop, 'tier': tier, 'seed': seed,
        'level': 'model_checking', 'coverage': cov,
        'assumptions': [env.SHIM_NOTE] + list(assumptions),
        'wall_s': round(time.time() - t0, 3),
        'violations': len(new_viol),
    }
    d = os.path.join(OUT, 'evidence')
    os.makedirs(d, exist_ok=True)
    tmp = os.path.join(d, f'.{prop}.json.tmp')
    with open(tmp, 'w') as f:
        json.dump(ev, f, indent=1, default=str)
    os.replace(tmp, os.path.join(d, f'{prop}.json'))
    print(f"{prop} {tier} seed={seed}: states={cov['states']} "
          f"transitions={cov['transitions']} paths={st.paths} "
          f"evaluations={st.evaluations} "
          f"nontrivial={cov['distinct_nontrivial']} "
          f"outcomes={cov['distinct_outcomes']} exhaustive={exhaustive} "
          f"violations={len(new_viol)} known={len(known_hit)} "
          f"wall={ev['wall_s']}s")
    return rc
