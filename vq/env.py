"""Bootstrap of the code under test.

Everything that makes an execution reproducible is decided here, before
`quantity` is imported:

* the code under test is imported from ``$VQ_REPO/src`` (default /repo/src) and
  this is asserted on ``quantity.__file__``;
* decimalfp's pure-Python implementation is forced (the C accelerator in this
  image corrupts memory, see DESIGN.md section 2) and its pathologically slow
  helper ``_approx_rational`` is replaced by an arithmetically equivalent one
  (self-tested against the original on every start);
* hash randomisation and bytecode caches are switched off by the ``check``
  launcher (PYTHONHASHSEED=0, PYTHONDONTWRITEBYTECODE=1).
"""
import os
import sys
from math import gcd

REPO = os.environ.get('VQ_REPO', '/repo')
SRC = os.path.join(REPO, 'src')
VERIF = os.path.dirname(os.path.dirname(os.path.abspath(__file__)))

os.environ['DECIMALFP_FORCE_PYTHON_IMPL'] = '1'
sys.dont_write_bytecode = True

_booted = False

SHIM_NOTE = ("decimalfp runs on its pure-Python implementation "
             "(DECIMALFP_FORCE_PYTHON_IMPL=1) with _approx_rational replaced "
             "by an equivalent gcd/strip-2-and-5 version, self-tested against "
             "the original at start-up")


def _fast_approx_rational(num, den, min_prec=0):
    # v * 10 ** -p + r == num / den ; callers use only `r == 0` and, in that
    # case, the minimal (v, p).
    if num == 0:
        return 0, min_prec, 0
    if den == 0:
        raise ValueError('math domain error')   # as the original (log10(0))
    if den < 0:
        num, den = -num, -den
    g = gcd(num, den)
    n, d = num // g, den // g
    p2 = 0
    while d % 2 == 0:
        d //= 2
        p2 += 1
    p5 = 0
    while d % 5 == 0:
        d //= 5
        p5 += 1
    if d != 1:
        return 0, 0, 1      # non-terminating: remainder != 0
    p = max(p2, p5)
    if p > 65535:
        return 0, 0, 1
    v = n * 2 ** (p - p2) * 5 ** (p - p5)
    return v, p, 0


def _selftest_shim(orig):
    cases = [(1, 8), (3, 8), (-7, 20), (1, 3), (22, 7), (5, 1), (-5, 1),
             (10 ** 12, 1), (1, 10 ** 9), (254, 10000), (45359237, 10 ** 8),
             (1, 7), (-1, 6), (123456789, 2 ** 20), (7, 5 ** 9), (0, 5),
             (1000, 10), (-1000, 8), (3, -8), (1, 1024), (9, 3)]
    for num, den in cases:
        v0, p0, r0 = orig(num, den)
        v1, p1, r1 = _fast_approx_rational(num, den)
        if (r0 == 0) != (r1 == 0) or (r0 == 0 and (v0, p0) != (v1, p1)):
            raise RuntimeError(f"decimalfp shim disagrees with original on "
                               f"{num}/{den}: {(v0, p0, r0)} vs {(v1, p1, r1)}")


def boot():
    """Import the library under test; idempotent."""
    global _booted
    if _booted:
        return
    if SRC in sys.path:
        sys.path.remove(SRC)
    sys.path.insert(0, SRC)
    import decimalfp
    from decimalfp import _pydecimalfp
    if decimalfp.Decimal is not _pydecimalfp.Decimal:
        raise RuntimeError("decimalfp is not running its Python "
                           "implementation")
    orig = _pydecimalfp._approx_rational
    if orig is not _fast_approx_rational:
        _selftest_shim(orig)
        _pydecimalfp._approx_rational = _fast_approx_rational
    import quantity
    f = os.path.realpath(quantity.__file__)
    if not f.startswith(os.path.realpath(SRC) + os.sep):
        raise RuntimeError(f"quantity imported from {f}, expected {SRC}")
    _booted = True
