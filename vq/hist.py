"""Engine H: history exploration with fork() snapshots.

* fork_call(fn, *args)      run fn in a forked snapshot of this process and
                            return its (pickled) result; the parent's
                            registries are untouched.
* dfs_fork(...)             stateless DFS: every node of the history tree is a
                            forked child that applies ONE event to the real
                            library on top of its parent's snapshot, writes
                            one JSON record and explores its own subtree.
* run_dfs(...)              distributes the first level(s) of the tree over
                            worker processes and streams the records back.
"""
import json
import multiprocessing as mp
import os
import pickle
import tempfile
import traceback

from . import core


def fork_call(fn, *args):
    r, w = os.pipe()
    pid = os.fork()
    if pid == 0:
        code = 0
        try:
            os.close(r)
            try:
                res = ('ok', fn(*args))
            except BaseException:
                res = ('err', traceback.format_exc())
            data = pickle.dumps(res)
            view = memoryview(data)
            while view:
                n = os.write(w, view)
                view = view[n:]
        except BaseException:
            code = 3
        finally:
            os._exit(code)
    os.close(w)
    chunks = []
    while True:
        b = os.read(r, 1 << 16)
        if not b:
            break
        chunks.append(b)
    os.close(r)
    _, status = os.waitpid(pid, 0)
    if status != 0 or not chunks:
        raise RuntimeError(f"forked child failed (status {status})")
    kind, val = pickle.loads(b''.join(chunks))
    if kind == 'err':
        raise RuntimeError("forked child raised:\n" + val)
    return val


def dfs_fork(state, hist, depth_left, enabled, step, fd):
    """Explore all histories extending `hist` by up to depth_left events.
    enabled(state, hist) -> list of events; step(state, hist, ev) -> record
    dict (JSON-able) -- it mutates `state` and the real library inside the
    forked child only."""
    for ev in enabled(state, hist):
        pid = os.fork()
        if pid == 0:
            code = 0
            try:
                try:
                    rec = step(state, hist, ev)
                except BaseException:
                    rec = {'h': hist + [ev], 'crash': traceback.format_exc()}
                line = (json.dumps(rec, default=str) + '\n').encode()
                os.write(fd, line)
                if depth_left > 1 and not rec.get('stop') and \
                        'crash' not in rec:
                    dfs_fork(state, hist + [ev], depth_left - 1, enabled,
                             step, fd)
            except BaseException:
                code = 3
            finally:
                os._exit(code)
        _, status = os.waitpid(pid, 0)
        if status != 0:
            os.write(fd, (json.dumps({'h': hist + [ev], 'crash':
                                      f'child exit status {status}'})
                          + '\n').encode())


_JOB = None


def _worker(task):
    make_state, enabled, step, depth, tmpdir = _JOB
    idx, prefix = task
    path = os.path.join(tmpdir, f'part{idx}.jsonl')
    fd = os.open(path, os.O_WRONLY | os.O_CREAT | os.O_APPEND, 0o600)
    try:
        state = make_state()
        hist = []
        ok = True
        for ev in prefix:
            # prefix events are applied in this worker without recording:
            # their records are produced by the worker owning the shorter
            # prefix, except for the last event of the prefix
            last = len(hist) == len(prefix) - 1
            rec = step(state, hist, ev)
            hist = hist + [ev]
            if last:
                os.write(fd, (json.dumps(rec, default=str) + '\n').encode())
            if rec.get('stop'):
                ok = False
                break
        if ok and depth - len(prefix) > 0:
            dfs_fork(state, hist, depth - len(prefix), enabled, step, fd)
    except BaseException:
        os.write(fd, (json.dumps({'h': list(prefix), 'crash':
                                  traceback.format_exc()}) + '\n').encode())
    finally:
        os.close(fd)
    return path


def prefixes_of(make_state, enabled, step, split_depth):
    """All histories of exactly split_depth events (computed in forked
    snapshots so the caller stays pristine), plus the shorter ones."""
    def collect(_):
        out = []

        def rec(state, hist, d):
            for ev in enabled(state, hist):
                if d == 1:
                    out.append(hist + [ev])
                else:
                    def sub(ev=ev):
                        r = step(state, hist, ev)
                        inner = []
                        if not r.get('stop'):
                            saved = list(out)
                            del out[:]
                            rec(state, hist + [ev], d - 1)
                            inner = list(out)
                            del out[:]
                            out.extend(saved)
                        return inner
                    # shorter prefix gets its own task as well
                    out.append(hist + [ev])
                    out.extend(fork_call(sub))
        rec(make_state(), [], split_depth)
        return out
    return fork_call(collect, None)


def run_dfs(make_state, enabled, step, depth, on_record, split_depth=1,
            jobs=None):
    """Run the whole exploration; on_record(rec) is called in the master for
    every node record.  Returns the number of nodes."""
    global _JOB
    jobs = jobs or core.NCPU
    tmpdir = tempfile.mkdtemp(prefix='vq-hist-')
    n = 0
    try:
        prefixes = prefixes_of(make_state, enabled, step,
                               min(split_depth, depth))
        # a prefix shorter than split_depth must not explore below itself
        # (its extensions are separate tasks)
        full = [p for p in prefixes if len(p) == min(split_depth, depth)]
        short = [p for p in prefixes if len(p) < min(split_depth, depth)]
        _JOB = (make_state, enabled, step, depth, tmpdir)
        tasks = list(enumerate(full))
        ctx = mp.get_context('fork')
        paths = []
        with ctx.Pool(min(jobs, max(1, len(tasks))),
                      maxtasksperchild=1) as pool:
            for path in pool.imap_unordered(_worker, tasks, chunksize=1):
                paths.append(path)
        # records of the short prefixes
        _JOB = (make_state, enabled, step, 0, tmpdir)
        stasks = [(len(full) + i, p) for i, p in enumerate(short)]
        if stasks:
            with ctx.Pool(min(jobs, len(stasks)),
                          maxtasksperchild=1) as pool:
                for path in pool.imap_unordered(_worker, stasks,
                                                chunksize=1):
                    paths.append(path)
        for path in paths:
            with open(path) as f:
                for line in f:
                    n += 1
                    on_record(json.loads(line))
    finally:
        for name in os.listdir(tmpdir):
            os.unlink(os.path.join(tmpdir, name))
        os.rmdir(tmpdir)
    return n
