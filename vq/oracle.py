"""Reference models.  Nothing in here calls the library's scale computation.

* amount codec (JSON-able spellings of numbers, exact Fraction values)
* rounding oracle for the 8 modes (cross-validated against stdlib decimal by
  ``check selftest``)
* hand-entered reference table of the predefined catalogue
  (SI brochure, international yard and pound agreement of 1959, IEC 80000-13)
* independent regex parse of the bundled ISO 4217 table
"""
import decimal as _stddec
import os
import re
from fractions import Fraction as F
from functools import lru_cache

from . import env

# ---------------------------------------------------------------------------
# amount codec


import numbers as _numbers
import operator as _operator


class Ratio(F):
    """a user's sub-class of Fraction: an exact rational like any other"""


class I64(_numbers.Integral):
    """An integer type that is NOT derived from int (like numpy.int64): every
    operation answers like int does -- in particular the quotient of two of
    them is a float."""

    def __init__(self, v):
        self.v = int(v)

    def __int__(self):
        return self.v

    def __index__(self):
        return self.v

    def __hash__(self):
        return hash(self.v)

    def __repr__(self):
        return f"I64({self.v})"

    def __float__(self):
        return float(self.v)

    def __bool__(self):
        return bool(self.v)


def _i64_methods():
    def val_of(x):
        return x.v if isinstance(x, I64) else x

    def wrap(r):
        return I64(r) if type(r) is int else r

    def binary(name, reflected):
        op = getattr(_operator, name)

        def method(self, other):
            try:
                if reflected:
                    return wrap(op(val_of(other), self.v))
                return wrap(op(self.v, val_of(other)))
            except TypeError:
                return NotImplemented
        return method
    for name, opn in (('add', 'add'), ('sub', 'sub'), ('mul', 'mul'),
                      ('floordiv', 'floordiv'), ('mod', 'mod'),
                      ('pow', 'pow'), ('lshift', 'lshift'),
                      ('rshift', 'rshift'), ('and', 'and_'), ('or', 'or_'),
                      ('xor', 'xor'), ('truediv', 'truediv')):
        setattr(I64, f'__{name}__', binary(opn, False))
        setattr(I64, f'__r{name}__', binary(opn, True))
    for name in ('lt', 'le', 'eq', 'gt', 'ge', 'ne'):
        setattr(I64, f'__{name}__',
                (lambda n: lambda self, other: getattr(_operator, n)(
                    self.v, val_of(other)))(name))
    I64.__neg__ = lambda self: I64(-self.v)
    I64.__pos__ = lambda self: I64(self.v)
    I64.__abs__ = lambda self: I64(abs(self.v))
    I64.__invert__ = lambda self: I64(~self.v)
    I64.__trunc__ = I64.__floor__ = I64.__ceil__ = lambda self: self.v
    I64.__round__ = lambda self, ndigits=None: I64(self.v)
    I64.__abstractmethods__ = frozenset()


_i64_methods()


@lru_cache(maxsize=None)
def dec(code):
    """Spelling -> the Python object handed to the library."""
    from decimalfp import Decimal
    kind, _, txt = code.partition(':')
    if kind == 'i':
        return int(txt)
    if kind == 'D':
        return Decimal(txt)
    if kind == 'F':
        n, _, d = txt.partition('/')
        return F(int(n), int(d or 1))
    if kind == 'f':
        return float(txt)
    if kind == 'I':
        return I64(int(txt))
    if kind == 'R':                 # an instance of a sub-class of Fraction
        n, _, d = txt.partition('/')
        return Ratio(int(n), int(d or 1))
    if kind == 'S':
        return _stddec.Decimal(txt)
    if kind == 's':
        return txt
    if kind == 'b':
        return txt == 'True'
    if kind == 'p':                 # an SI prefix object, e.g. 'p:KILO'
        import quantity.si_prefixes as P
        return getattr(P, txt)
    raise ValueError(code)


# hand-entered (SI brochure), independent of quantity.si_prefixes
SI_PREFIX_EXP = {'YOCTO': -24, 'ZEPTO': -21, 'ATTO': -18, 'FEMTO': -15,
                 'PICO': -12, 'NANO': -9, 'MICRO': -6, 'MILLI': -3,
                 'CENTI': -2, 'DECI': -1, 'DECA': 1, 'HECTO': 2, 'KILO': 3,
                 'MEGA': 6, 'GIGA': 9, 'TERA': 12, 'PETA': 15, 'EXA': 18,
                 'ZETTA': 21, 'YOTTA': 24}


@lru_cache(maxsize=None)
def val(code):
    """Spelling -> exact rational value (independent of decimalfp)."""
    kind, _, txt = code.partition(':')
    if kind in ('i', 'I'):
        return F(int(txt))
    if kind in ('D', 'S'):
        return F(_stddec.Decimal(txt))
    if kind in ('F', 'R'):
        n, _, d = txt.partition('/')
        return F(int(n), int(d or 1))
    if kind == 'f':
        return F(float(txt))          # exact binary value
    if kind == 's':
        t = txt.strip()
        if '/' in t:
            n, _, d = t.partition('/')
            return F(int(n), int(d))
        return F(_stddec.Decimal(t))
    if kind == 'b':
        return F(int(txt == 'True'))
    if kind == 'p':
        return F(10) ** SI_PREFIX_EXP[txt]
    raise ValueError(code)


def dec_str(x):
    """finite decimal spelling of a Fraction (for text amounts)"""
    return str(_stddec.Context(prec=80).divide(
        _stddec.Decimal(F(x).numerator), _stddec.Decimal(F(x).denominator)))


def enc(x):
    """Exact library number -> spelling (for reports)."""
    from decimalfp import Decimal
    if isinstance(x, bool):
        return f'b:{x}'
    if isinstance(x, int):
        return f'i:{x}'
    if isinstance(x, Decimal):
        return f'D:{x}'
    if isinstance(x, F):
        return f'F:{x.numerator}/{x.denominator}'
    if isinstance(x, float):
        return f'f:{x!r}'
    return f'?:{x!r}'


def fr(x):
    """Exact value of a number returned by the library (never via float)."""
    if isinstance(x, float):
        raise TypeError("float result")
    return F(x.numerator, x.denominator)


def is_exact(x):
    from decimalfp import Decimal
    return isinstance(x, (Decimal, F)) or (isinstance(x, int)
                                           and not isinstance(x, bool))


# ---------------------------------------------------------------------------
# rounding oracle

MODES = ['ROUND_05UP', 'ROUND_CEILING', 'ROUND_DOWN', 'ROUND_FLOOR',
         'ROUND_HALF_DOWN', 'ROUND_HALF_EVEN', 'ROUND_HALF_UP', 'ROUND_UP']
HALF_MODES = {'ROUND_HALF_DOWN', 'ROUND_HALF_EVEN', 'ROUND_HALF_UP'}


def round_int(x, mode):
    """Round the exact rational x to an integer as IBM's General Decimal
    Arithmetic defines `mode`."""
    x = F(x)
    n, d = x.numerator, x.denominator
    f, r = divmod(n, d)            # floor and remainder, 0 <= r < d
    if r == 0:
        return f
    pos = x > 0
    if mode == 'ROUND_FLOOR':
        return f
    if mode == 'ROUND_CEILING':
        return f + 1
    if mode == 'ROUND_DOWN':
        return f if pos else f + 1
    if mode == 'ROUND_UP':
        return f + 1 if pos else f
    if mode == 'ROUND_05UP':
        t = f if pos else f + 1    # towards zero
        if abs(t) % 10 in (0, 5):
            return t + (1 if pos else -1)
        return t
    if 2 * r < d:
        return f
    if 2 * r > d:
        return f + 1
    # exact tie
    if mode == 'ROUND_HALF_UP':
        return f + 1 if pos else f
    if mode == 'ROUND_HALF_DOWN':
        return f if pos else f + 1
    if mode == 'ROUND_HALF_EVEN':
        return f if f % 2 == 0 else f + 1
    raise ValueError(mode)


def round_to(x, quantum, mode):
    """Nearest multiple of quantum (> 0) to x by `mode`."""
    return round_int(F(x) / F(quantum), mode) * F(quantum)


def mode_obj(name):
    from decimalfp import ROUNDING
    return getattr(ROUNDING, name)


def set_mode(name):
    import decimalfp
    decimalfp.set_dflt_rounding_mode(mode_obj(name))


def get_mode():
    import decimalfp
    return decimalfp.get_dflt_rounding_mode().name


def selftest_rounding():
    """Compare round_int with stdlib decimal on an exhaustive small grid."""
    n_cmp = 0
    ctx = _stddec.Context(prec=60)
    for den in (1, 2, 4, 5, 8, 10, 20, 40):
        for num in range(-12 * den - 3, 12 * den + 4):
            x = F(num, den)
            sd = ctx.divide(_stddec.Decimal(num), _stddec.Decimal(den))
            for m in MODES:
                want = int(sd.quantize(_stddec.Decimal(1),
                                       rounding=getattr(_stddec, m),
                                       context=ctx))
                got = round_int(x, m)
                n_cmp += 1
                if want != got:
                    raise RuntimeError(f"rounding oracle: {x} {m}: stdlib "
                                       f"{want}, oracle {got}")
    return n_cmp


# ---------------------------------------------------------------------------
# predefined catalogue: hand-entered reference table
#   type -> (dimension, reference symbol, quantum, {symbol: scale})
# Dimensions over M (mass), L (length), T (time), D (data), K (temperature).

def _d(**kw):
    return tuple(sorted((k, v) for k, v in kw.items() if v))


_P = {  # decimal prefixes
    'n': F(1, 10 ** 9), 'µ': F(1, 10 ** 6), 'm': F(1, 1000), 'c': F(1, 100),
    'd': F(1, 10), 'k': F(1000), 'M': F(10 ** 6), 'G': F(10 ** 9),
    'T': F(10 ** 12)}

INCH = F(254, 10000)
FOOT = 12 * INCH                  # 0.3048 m
YARD = 3 * FOOT                   # 0.9144 m
CHAIN = 22 * YARD                 # 20.1168 m
FURLONG = 10 * CHAIN              # 201.168 m
MILE = 1760 * YARD                # 1609.344 m
POUND = F(45359237, 10 ** 8)      # kg


def _data(suffix=''):
    t = {}
    t['B' + suffix] = F(1)
    t['b' + suffix] = F(1, 8)
    for base, bscale in (('B', F(1)), ('b', F(1, 8))):
        for p, e in (('k', 3), ('M', 6), ('G', 9), ('T', 12)):
            t[p + base + suffix] = bscale * 10 ** e
        for p, e in (('Ki', 10), ('Mi', 20), ('Gi', 30), ('Ti', 40)):
            t[p + base + suffix] = bscale * 2 ** e
    return t


CATALOGUE = {
    'Mass': (_d(M=1), 'kg', None, {
        'kg': F(1), 'g': F(1, 1000), 'mg': F(1, 10 ** 6), 't': F(1000),
        'lb': POUND, 'st': 14 * POUND, 'oz': POUND / 16,
        'ct': F(2, 10000)}),
    'Length': (_d(L=1), 'm', None, {
        'm': F(1), 'nm': _P['n'], 'µm': _P['µ'], 'mm': _P['m'],
        'cm': _P['c'], 'dm': _P['d'], 'km': _P['k'], 'in': INCH,
        'ft': FOOT, 'yd': YARD, 'ch': CHAIN, 'fur': FURLONG, 'mi': MILE}),
    'Duration': (_d(T=1), 's', None, {
        's': F(1), 'ns': _P['n'], 'µs': _P['µ'], 'ms': _P['m'],
        'min': F(60), 'h': F(3600), 'd': F(86400)}),
    'Area': (_d(L=2), 'm²', None, {
        'm²': F(1), 'mm²': F(1, 10 ** 6), 'cm²': F(1, 10 ** 4),
        'dm²': F(1, 100), 'km²': F(10 ** 6), 'a': F(100), 'ha': F(10 ** 4),
        'in²': INCH ** 2, 'ft²': FOOT ** 2, 'yd²': YARD ** 2,
        'mi²': MILE ** 2, 'ac': 4840 * YARD ** 2}),
    'Volume': (_d(L=3), 'm³', None, {
        'm³': F(1), 'mm³': F(1, 10 ** 9), 'cm³': F(1, 10 ** 6),
        'dm³': F(1, 1000), 'km³': F(10 ** 9), 'l': F(1, 1000),
        'ml': F(1, 10 ** 6), 'cl': F(1, 10 ** 5), 'dl': F(1, 10 ** 4),
        'in³': INCH ** 3, 'ft³': FOOT ** 3, 'yd³': YARD ** 3}),
    'Velocity': (_d(L=1, T=-1), 'm/s', None, {
        'm/s': F(1), 'km/h': F(1000, 3600), 'ft/s': FOOT,
        'mph': MILE / 3600}),
    'Acceleration': (_d(L=1, T=-2), 'm/s²', None, {
        'm/s²': F(1), 'mps²': MILE}),
    'Force': (_d(M=1, L=1, T=-2), 'N', None, {'N': F(1), 'J/m': F(1)}),
    'Energy': (_d(M=1, L=2, T=-2), 'J', None, {
        'J': F(1), 'Nm': F(1), 'Ws': F(1), 'kWh': F(3600000)}),
    'Power': (_d(M=1, L=2, T=-3), 'W', None, {
        'W': F(1), 'mW': _P['m'], 'kW': _P['k'], 'MW': _P['M'],
        'GW': _P['G'], 'TW': _P['T']}),
    'Frequency': (_d(T=-1), 'Hz', None, {
        'Hz': F(1), 'kHz': _P['k'], 'MHz': _P['M'], 'GHz': _P['G']}),
    'DataVolume': (_d(D=1), 'B', F(1, 8), _data()),
    'DataThroughput': (_d(D=1, T=-1), 'B/s', None, _data('/s')),
    'Temperature': (_d(K=1), None, None, {'°C': None, '°F': None, 'K': None}),
}

LINEAR_TYPES = [t for t in CATALOGUE if CATALOGUE[t][1] is not None]

# symbol -> (type name, scale)
UNIT_REF = {}
for _t, (_dim, _ref, _q, _units) in CATALOGUE.items():
    for _s, _sc in _units.items():
        assert _s not in UNIT_REF, _s
        UNIT_REF[_s] = (_t, _sc)
DIM_TO_TYPE = {CATALOGUE[t][0]: t for t in CATALOGUE}


def dim_mul(d1, d2, sign=1):
    acc = dict(d1)
    for k, v in d2:
        acc[k] = acc.get(k, 0) + sign * v
    return tuple(sorted((k, v) for k, v in acc.items() if v))


def dim_pow(d, n):
    return tuple(sorted((k, v * n) for k, v in d if v * n))


def temp_to_kelvin(symbol, x):
    """Physics of the three temperature scales (exact)."""
    x = F(x)
    if symbol == 'K':
        return x
    if symbol == '°C':
        return x + F(27315, 100)
    if symbol == '°F':
        return (x - 32) * F(5, 9) + F(27315, 100)
    raise KeyError(symbol)


def temp_from_kelvin(symbol, k):
    k = F(k)
    if symbol == 'K':
        return k
    if symbol == '°C':
        return k - F(27315, 100)
    if symbol == '°F':
        return (k - F(27315, 100)) * F(9, 5) + 32
    raise KeyError(symbol)


# ---------------------------------------------------------------------------
# ISO 4217: independent parse of the bundled XML (regex, no ElementTree)

_ISO = None


def iso_table():
    """code -> {'names': set, 'minor': int} for functional currencies, i.e.
    entries with a numeric code and numeric minor units; plus the set of all
    codes that occur in the file but are not functional."""
    global _ISO
    if _ISO is not None:
        return _ISO
    path = os.path.join(env.SRC, 'quantity', 'money', 'iso_4217.xml')
    with open(path, encoding='utf-8') as f:
        text = f.read()
    functional, other = {}, set()
    for m in re.finditer(r'<CcyNtry>(.*?)</CcyNtry>', text, re.S):
        body = m.group(1)

        def tag(name):
            mm = re.search(r'<%s(?:\s[^>]*)?>(.*?)</%s>' % (name, name), body,
                           re.S)
            if mm is None:
                return None
            t = mm.group(1)
            for a, b in (('&amp;', '&'), ('&lt;', '<'), ('&gt;', '>'),
                         ('&apos;', "'"), ('&quot;', '"')):
                t = t.replace(a, b)
            return t
        code, num, minor, name = (tag('Ccy'), tag('CcyNbr'),
                                  tag('CcyMnrUnts'), tag('CcyNm'))
        if code is None:
            continue
        if num is not None and num.isdigit() and minor is not None \
                and minor.isdigit():
            ent = functional.setdefault(code, {'names': [], 'minor': set()})
            ent['names'].append(name)
            ent['minor'].add(int(minor))
        else:
            other.add(code)
    _ISO = (functional, other - set(functional))
    return _ISO


# ---------------------------------------------------------------------------
# near-tie solver

def near_tie_multiples(factor, src_q, dst_q, deltas=(0, 1, -1, 2, -2)):
    """Integers n such that (n * src_q) * factor, measured in multiples of
    dst_q, is an exact tie (k + 1/2) or as close to a tie as the two grids
    allow.  These are the inputs on which a second rounding, a pre-rounded
    factor or a float shortcut becomes visible; they are solved exactly by a
    modular inverse instead of being searched for."""
    ratio = F(factor) * F(src_q) / F(dst_q)
    P, Q = abs(ratio.numerator), ratio.denominator
    if Q == 1:
        return []
    inv = pow(P, -1, Q)
    out = []
    for delta in deltas:
        n = (((Q // 2) + delta) % Q) * inv % Q
        if n and n not in out:
            out.append(n)
    return out
