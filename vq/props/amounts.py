"""Amount alphabet (DESIGN 3.4): base always enumerated; quick adds 3 extras
chosen by the seed, thorough adds the whole pool."""
import random

BASE = ['i:0', 'i:1', 'i:-1', 'i:7', 'i:1000000000000',
        'D:0.5', 'D:-2.5', 'D:1.005', 'D:0.000001',
        'F:1/3', 'F:-2/7', 'F:1/2',
        'D:1.00000000000000000000000000001']      # 30 significant digits

EXTRAS = [
    'D:123456789.123456789', 'D:0.000000001', 'D:-0.000000000000000001',
    'i:-1000000000000000000000000', 'D:99999999.99999999', 'F:22/7',
    'F:-355/113', 'F:1/1000000007', 'F:123456789/1000', 'D:0.125',
    'D:0.0625', 'D:-0.1875', 'D:2.54', 'D:0.45359237', 'F:5/9', 'F:9/5',
    'D:273.15', 'D:-459.67', 'i:3600', 'i:1024', 'F:1/1024',
    'D:1609.344', 'F:-1/8', 'D:0.3',
    'D:-123456789012345678901234567890.5',
    'D:0.3333333333333333333333333333333',
]


def pick(tier, seed, n_extra=3):
    if tier == 'thorough':
        return BASE + EXTRAS
    rnd = random.Random(seed)
    return BASE + rnd.sample(EXTRAS, n_extra)
