"""C01 Unit conversion within a quantity type is exact and coherent.

Engine V: states (unit, exact amount); transitions convert(v) for every unit
of the type; all paths of `depth` conversions from every (unit, amount) of the
alphabet, reference model (scale table) in lock-step.  Catalogue world plus
exhaustively enumerated user worlds (definition trees), each in a fresh fork.
"""
import itertools
from fractions import Fraction as F

from .. import oracle as O
from ..core import Stats, guarded, pmap
from ..world import World
from . import amounts as A

FACTORS = ['i:1000', 'i:12', 'D:0.0254', 'F:1/7', 'F:22/7']


# ---------------------------------------------------------------------------
# the single-path executor (also the replay entry point)

def scale_of(w, sym):
    return w.um[sym].scale


@guarded('C01')
def run_path(w, tname, path, a, st=None):
    """Convert a*path[0] -> path[1] -> ... on the real library, model in
    lock-step.  -> list of (signature, message)."""
    Q = w.q
    out = []
    cls = w.types[tname]
    tm = w.tm[tname]
    u0 = w.units[path[0]]
    q = cls(O.dec(a), u0)
    x = O.val(a)
    if tm.quantum is not None:
        x = O.round_to(x, tm.quantum / scale_of(w, path[0]), O.get_mode())
    if not O.is_exact(q.amount) or O.fr(q.amount) != x:
        return [(f'C01:construct:{tname}', f"{a} {path[0]} holds {q.amount!r}"
                 f", expected {x}")]
    orig = x
    rounded = False
    cur = path[0]
    for nxt in path[1:]:
        v = w.units[nxt]
        if cur != nxt and (scale_of(w, cur) is None
                           or scale_of(w, nxt) is None):
            # a unit without scale: no conversion, reported as such
            try:
                ea = q.equiv_amount(v)
                r = q.convert(v)
                if getattr(w, 'bogus', None) is None or \
                        O.fr(r.amount) != w.bogus or O.fr(ea) != w.bogus:
                    out.append((f'C01:no-common-scale:{tname}',
                                f"{q} -> {nxt} gives {r!r} (equiv_amount "
                                f"{ea!r}) although {cur} and {nxt} have no "
                                "common scale (a registered converter "
                                f"answers {getattr(w, 'bogus', None)})"))
            except Q.UnitConversionError:
                if getattr(w, 'bogus', None) is not None:
                    out.append((f'C01:no-common-scale:{tname}:converter',
                                f"{q} -> {nxt} raised although a registered "
                                "converter answers"))
                if st is not None:
                    st.transitions += 1
                    st.evaluations += 1
            except Exception as exc:
                out.append((f'C01:no-common-scale:{tname}:error-class',
                            f"{q} -> {nxt}: {type(exc).__name__}: {exc}"))
            return out
        exact = x if cur == nxt else \
            x * scale_of(w, cur) / scale_of(w, nxt)
        if tm.quantum is not None:
            want = O.round_to(exact, tm.quantum / scale_of(w, nxt),
                              O.get_mode())
            if want != exact:
                rounded = True
        else:
            want = exact
        try:
            ea = q.equiv_amount(v)
            r = q.convert(v)
        except Exception as exc:
            return out + [(f'C01:convert-raises:{tname}',
                           f"{q} -> {nxt}: {type(exc).__name__}: {exc}")]
        if st is not None:
            st.transitions += 1
            st.evaluations += 4
        if isinstance(ea, float) or isinstance(r.amount, float):
            out.append((f'C01:float:{tname}', f"{q} -> {nxt}: float result"))
            return out
        if ea is None or not O.is_exact(ea) or O.fr(ea) != exact:
            out.append((f'C01:equiv_amount:{tname}',
                        f"({q}).equiv_amount({nxt}) = {ea!r}, exact ratio of "
                        f"scales gives {exact}"))
        if type(r) is not cls or r.unit is not v:
            out.append((f'C01:result-type:{tname}',
                        f"{q} -> {nxt}: got {type(r).__name__} in "
                        f"{r.unit!r}"))
            return out
        if not O.is_exact(r.amount) or O.fr(r.amount) != want:
            out.append((f'C01:amount:{tname}',
                        f"({q}).convert({nxt}).amount = {r.amount!r}, "
                        f"expected {want}"))
            return out
        if want == exact and not (r == q):
            out.append((f'C01:not-equal:{tname}',
                        f"({q}).convert({nxt}) != original"))
        q, x, cur = r, want, nxt
    if not rounded and cur == path[0] and x != orig:
        out.append((f'C01:round-trip:{tname}', f"{a} {path} returns {x}"))
    return out


@guarded('C01')
def run_cross(w, s1, s2):
    """Conversion to a unit of another type must raise
    IncompatibleUnitsError."""
    Q = w.q
    from fractions import Fraction
    u1, u2 = w.units[s1], w.units[s2]
    for a in (1, 0, Fraction(0), O.dec('D:-2.5')):
        q = u1.qty_cls(a, u1)
        for name, f in (('convert', lambda: q.convert(u2)),
                        ('equiv_amount', lambda: q.equiv_amount(u2)),
                        ('text', lambda: Q.Quantity(f"{q.amount} {s1}",
                                                    u2))):
            try:
                r = f()
            except Q.IncompatibleUnitsError:
                continue
            except Exception as exc:
                return [(f'C01:cross-type:{name}', f"{a} {s1} -> {s2}: "
                         f"raised {type(exc).__name__} instead of "
                         "IncompatibleUnitsError")]
            return [(f'C01:cross-type:{name}',
                     f"{a} {s1} -> {s2}: returned {r!r}")]
    return []


# ---------------------------------------------------------------------------
# catalogue partitions

def part_catalogue(part, depth, amts, mode):
    tname, first_units = part
    st = Stats()
    O.set_mode(mode)
    w = World(catalogue=True)
    syms = w.tm[tname].units
    for u0 in first_units:
        for a in amts:
            for rest in itertools.product(syms, repeat=depth):
                path = [u0, *rest]
                res = run_path(w, tname, path, a, st)
                st.paths += 1
                for sig, msg in res:
                    st.violation(sig, msg, {'world': 'catalogue',
                                            'type': tname, 'path': path,
                                            'amount': a, 'mode': mode})
            # states: every (unit, value) reachable in one step
            x = O.val(a)
            for s in syms:
                v = x * scale_of(w, u0) / scale_of(w, s)
                st.state((tname, s, v), nontrivial=(s != u0 and x != 0))
    st.sample({'world': 'catalogue', 'type': tname,
               'path': [first_units[0], syms[-1], syms[0]],
               'amount': amts[-1]})
    return st


def part_cross(part):
    st = Stats()
    w = World(catalogue=True)
    all_syms = list(w.units)
    for s1 in part:
        for s2 in all_syms:
            if w.um[s1].tname == w.um[s2].tname:
                continue
            st.transitions += 12
            st.evaluations += 12
            st.paths += 1
            st.state(('cross', s1, s2), nontrivial=True)
            for sig, msg in run_cross(w, s1, s2):
                st.violation(sig, msg, {'world': 'catalogue',
                                        'cross': [s1, s2]})
    return st


# ---------------------------------------------------------------------------
# user worlds: every definition tree with <= n non-reference units

def user_worlds(max_units, factors, forms):
    """Yield world scripts: a base type U with reference unit u0 and units
    u1..un, each hanging off any earlier unit with any factor, declared either
    as `factor * parent` or as a Term."""
    def rec(script, k):
        yield script
        if k > max_units:
            return
        for parent in range(k):
            for f in factors:
                for form in forms:
                    if form == 'scaled':
                        how = ['scaled', f, f'u{parent}']
                    else:
                        how = ['term', [[f, 1], [f'u{parent}', 1]]]
                    yield from rec(script + [['unit', 'U', f'u{k}', how]],
                                   k + 1)
    for s in rec([['type', 'U', 'u0', None]], 1):
        if len(s) > 1:
            yield s


DERIVED_WORLDS = [
    # two types whose classes have the same name; a Python sub-class of a
    # quantized type that declares no quantum itself (its amounts are exact)
    [['type', 'L#1', 'l0', None],
     ['unit', 'L#1', 'l1', ['scaled', 'i:1000', 'l0']],
     ['type', 'L#2', 'ell', None],
     ['unit', 'L#2', 'kell', ['scaled', 'i:1000', 'ell']],
     ['type', 'QP', 'qp0', 'F:1/8'],
     ['unit', 'QP', 'kqp', ['scaled', 'i:1000', 'qp0']],
     ['type', 'QPs', 'pl', None, 'QP'],
     ['unit', 'QPs', 'kpl', ['scaled', 'i:1000', 'pl']],
     ['unit', 'QPs', 'pl3', ['scaled', 'F:1/3', 'pl']]],
    # units with a negative scale (conversion flips the sign)
    [['type', 'NG', 'g0', None],
     ['unit', 'NG', 'gneg', ['scaled', 'F:-1/4', 'g0']],
     ['unit', 'NG', 'kgneg', ['scaled', 'i:1000', 'gneg']],
     ['unit', 'NG', 'g2', ['scaled', 'i:2', 'g0']],
     # units without scale in a type with reference unit: not convertible
     ['unit', 'NG', 'gnone', ['none']],
     ['unit', 'NG', 'kgnone', ['scaled', 'i:1000', 'gnone']]],
    # binary scales whose ratio exceeds 2**61 (a sector of 512 byte next to
    # zebi / yobi multiples): numerically far apart, equal modulo 2**61 - 1
    [['type', 'DS', 'by', None],
     ['unit', 'DS', 'sector', ['scaled', 'i:512', 'by']],
     ['unit', 'DS', 'Eiby', ['scaled', 'i:1152921504606846976', 'by']],
     ['unit', 'DS', 'Ziby', ['scaled', 'i:1024', 'Eiby']],
     ['unit', 'DS', 'Yiby', ['scaled', 'i:1024', 'Ziby']],
     ['unit', 'DS', 'by61', ['scaled', 'i:2305843009213693952', 'by']],
     ['unit', 'DS', 'bit', ['scaled', 'F:1/8', 'by']]],
    # derived types with units from derive_unit_from and term definitions
    [['type', 'B1', 'x0', None], ['type', 'B2', 'y0', None],
     ['unit', 'B1', 'x1', ['scaled', 'i:1000', 'x0']],
     ['unit', 'B1', 'x2', ['scaled', 'D:0.0254', 'x1']],
     ['unit', 'B2', 'y1', ['scaled', 'i:60', 'y0']],
     ['unit', 'B2', 'y2', ['scaled', 'F:1/7', 'y1']],
     ['dtype', 'V', [['B1', 1], ['B2', -1]], None, None],
     ['unit', 'V', 'x1/y1', ['derive', ['x1', 'y1']]],
     ['unit', 'V', 'x2py2', ['derive', ['x2', 'y2']]],
     ['unit', 'V', 'vt', ['term', [['F:22/7', 1], ['x2', 1], ['y1', -1]]]],
     ['unit', 'V', 'vs', ['scaled', 'D:2.5', 'vt']],
     # plain int factors that end up with exponent -1 (reciprocals that are
     # not binary fractions)
     # two convertible units that cancel inside a longer term
     ['unit', 'B1', 'xq', ['term', [['x2', 1], ['x1', -1], ['x0', 1]]]],
     ['unit', 'B2', 'yq', ['term', [['y2', 1], ['y1', -1], ['y0', 1],
                                    ['i:3', 1]]]],
     ['unit', 'B2', 'y3', ['term', [['i:3', 1], ['y0', 1]]]],
     ['unit', 'V', 'x1/y3', ['derive', ['x1', 'y3']]],
     ['unit', 'V', 'vti', ['term', [['i:7', -1], ['x1', 1], ['y0', -1]]]]],
    [['type', 'B1', 'x0', None],
     ['unit', 'B1', 'x1', ['scaled', 'i:12', 'x0']],
     ['unit', 'B1', 'x2', ['term', [['F:1/3', 1], ['x1', 1]]]],
     ['dtype', 'A', [['B1', 2]], None, None],
     ['unit', 'A', 'x1²', ['derive', ['x1']]],
     ['unit', 'A', 'x2²', ['derive', ['x2']]],
     ['unit', 'A', 'at', ['term', [['x1', 1], ['x2', 1]]]],
     ['unit', 'A', 'a100', ['scaled', 'i:100', 'at']],
     ['dtype', 'C', [['B1', 3]], 'c0', None],
     ['unit', 'C', 'ca', ['term', [['at', 1], ['x2', 1]]]],
     ['unit', 'C', 'cb', ['term', [['x1', 3]]]]],
    [['type', 'B1', 'x0', None], ['type', 'B2', 'y0', None],
     ['unit', 'B1', 'x1', ['scaled', 'D:0.5', 'x0']],
     ['unit', 'B2', 'y1', ['scaled', 'i:10', 'y0']],
     ['dtype', 'P', [['B1', 1], ['B2', 1]], 'p0', None],
     ['unit', 'P', 'p1', ['derive', ['x1', 'y1']]],
     ['dtype', 'R', [['P', 1], ['B2', -2]], None, None],
     ['unit', 'R', 'r1', ['derive', ['p1', 'y1']]],
     ['unit', 'R', 'r2', ['term', [['x1', 1], ['y0', -1]]]],
     ['dtype', 'I', [['B2', -1]], 'i0', None],
     ['unit', 'I', 'i1', ['term', [['i:3', 1], ['y1', -1]]]]],
]


def build_world(script):
    w = World()
    for ev in script:
        res = w.apply(ev)
        if res[0] != 'ok':
            return w, (ev, res)
    return w, None


def register_bogus(w):
    """a converter on every type with reference unit: it must never be asked
    for units with a common scale, and decides for units without one"""
    for tname, tm in w.tm.items():
        if tm.ref is not None:
            w.types[tname].register_converter(
                lambda qty, to_unit: F(7) if qty.unit is not to_unit
                else qty.amount)
    w.bogus = F(7)


def part_user(script, depth, amts, mode):
    st = Stats()
    O.set_mode(mode)
    w, err = build_world(script)
    if err is not None:
        ev, res = err
        st.violation('C01:user-declaration-rejected',
                     f"valid declaration {ev} raised {res[1]}: {res[2]}",
                     {'world': script, 'failed': ev})
        return st
    # a converter registered on a linearly scaled type must not take part:
    # conversion is by the ratio of the scales
    register_bogus(w)
    for tname, tm in w.tm.items():
        syms = tm.units
        if len(syms) < 2:
            continue
        for a in amts:
            for path in itertools.product(syms, repeat=depth + 1):
                res = run_path(w, tname, list(path), a, st)
                st.paths += 1
                for sig, msg in res:
                    st.violation(sig, msg, {'world': script, 'type': tname,
                                            'path': list(path), 'amount': a,
                                            'mode': mode})
        for s in syms:
            st.state(('user', tname, w.um[s].scale), nontrivial=True)
    # cross type
    allsyms = list(w.um)
    for s1 in allsyms:
        for s2 in allsyms:
            if w.um[s1].tname != w.um[s2].tname:
                st.transitions += 2
                st.evaluations += 2
                for sig, msg in run_cross(w, s1, s2):
                    st.violation(sig, msg, {'world': script,
                                            'cross': [s1, s2]})
    if len(script) == 4:
        st.sample({'world': script, 'explored': 'all paths of length '
                   f'{depth + 1} over its units x {len(amts)} amounts'})
    return st


def replay(case):
    if case.get('world') == 'catalogue':
        w = World(catalogue=True)
    else:
        w, err = build_world(case['world'])
        if err is not None:
            return [('C01:user-declaration-rejected', str(err))]
    if 'cross' in case:
        return run_cross(w, *case['cross'])
    O.set_mode(case.get('mode', 'ROUND_HALF_EVEN'))
    if case.get('world') != 'catalogue':
        register_bogus(w)
    return run_path(w, case['type'], case['path'], case['amount'])


def _user_task(script, depth, amts, mode):
    return part_user(script, depth, amts, mode)


def run(tier, seed):
    amts = A.pick(tier, seed)
    depth = 2
    total = Stats()
    # catalogue: partition by (type, first unit)
    parts = []
    for tname in O.LINEAR_TYPES:
        syms = list(O.CATALOGUE[tname][3])
        for s in syms:
            parts.append((tname, [s]))
    total.merge(pmap(part_catalogue, parts,
                     (depth, amts, 'ROUND_HALF_EVEN')))
    if tier == 'thorough':
        # depth 3 on the small types, and the quantized type under all modes
        small = [(t, [s]) for t in O.LINEAR_TYPES
                 for s in O.CATALOGUE[t][3] if len(O.CATALOGUE[t][3]) <= 8]
        total.merge(pmap(part_catalogue, small,
                         (3, amts[:12], 'ROUND_HALF_EVEN')))
        for mode in O.MODES:
            if mode == 'ROUND_HALF_EVEN':
                continue
            dv = [('DataVolume', [s]) for s in O.CATALOGUE['DataVolume'][3]]
            total.merge(pmap(part_catalogue, dv, (2, amts[:12], mode)))
    else:
        dv = [('DataVolume', [s]) for s in O.CATALOGUE['DataVolume'][3]]
        for mode in ('ROUND_UP', 'ROUND_HALF_DOWN'):
            total.merge(pmap(part_catalogue, dv, (1, amts[:8], mode)))
    # cross-type pairs
    syms = list(O.UNIT_REF)
    total.merge(pmap(part_cross, [syms[i::16] for i in range(16)]))
    # user worlds
    n_units = 3 if tier == 'thorough' else 2
    facs = FACTORS if tier == 'thorough' else FACTORS[:4]
    scripts = list(user_worlds(n_units, facs, ['scaled', 'term']))
    scripts += DERIVED_WORLDS
    uamts = amts[:12] if tier == 'thorough' else amts[:6]
    total.merge(pmap(_user_task, scripts, (2, uamts, 'ROUND_HALF_EVEN'),
                     fresh=True))
    total.extra['user_worlds'] = len(scripts)
    total.extra['amount_alphabet'] = amts
    total.extra['depth'] = depth
    return total, dict(
        rule="state = (unit, exact amount); transition = convert(v); all "
             f"paths of {depth} conversions (3 for small types in thorough) "
             "from every (unit, amount) of the alphabet, in the catalogue and "
             "in every user world (all definition trees with <= "
             f"{n_units} non-reference units over {len(facs)} factors x "
             "{scaled, term} forms, plus 3 derived-type worlds); all "
             "cross-type unit pairs; non-trivial = target unit differs and "
             "amount != 0",
        level_text="bounded exhaustive exploration of the real convert / "
                   "equiv_amount with a Fraction scale table as reference "
                   "model in lock-step",
        assumptions=["amounts outside the alphabet and chains deeper than "
                     "the bound are not covered"])
