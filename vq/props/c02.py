"""C02 Products, quotients and powers respect dimensions and scales.

Engine V over the catalogue (all 113x113 ordered unit pairs x {*, /} x operand
kinds x amounts; powers; numbers of every kind) and Engine H-lite over user
worlds (every subset of optional derived types declared or not, each world in
a fresh fork).
"""
import itertools
import operator
from fractions import Fraction as F

from .. import oracle as O
from ..core import Stats, guarded, pmap
from ..world import World

A1 = ['i:2', 'D:0.5', 'F:-2/7']
A2 = ['i:3', 'D:0.25', 'F:1/3']
NUMS = ['i:3', 'i:-1', 'D:0.25', 'F:-2/7', 'f:0.1', 'f:2.5', 'S:1.5',
        'i:1000000000000', 'f:1e-30', 'R:1/3', 'R:-7/4']
KINDS = ['qq', 'qu', 'uq', 'uu']


# ---------------------------------------------------------------------------
# reference model

def udesc(w, sym):
    """(type name, type dim, scale or None, unit-level dim, unit-level fac)"""
    um = w.um[sym]
    tm = w.tm[um.tname]
    return um.tname, tm.dim, um.scale, um.udim, um.ufac


def type_for_dim(w, dim):
    for t in w.tm.values():
        if t.dim == dim:
            return t
    return None


def expect_binop(w, op, s1, s2):
    """What `x1 s1 op x2 s2` must be, as a function of the operand values.
    -> ('num',) | ('qty', TypeM) | ('undef',) | ('skip', why)
       | ('noref', TypeM, udim, exact_declared, any_declared)"""
    t1, d1, sc1, ud1, uf1 = udesc(w, s1)
    t2, d2, sc2, ud2, uf2 = udesc(w, s2)
    sign = 1 if op == '*' else -1
    if t1 == t2 and op == '/':
        if sc1 is None:
            if s1 == s2:
                return ('num',)
            if ud1 is None or ud2 is None:
                return ('skip', 'same no-ref type, no unit dims')
            if list(w.types[t1].registered_converters()):
                return ('skip', 'type converted through converters')
            if ud1 == ud2:
                # e.g. EUR/kg : EUR/g, same base units: the dimensions
                # cancel, so the exact number -- for every kind of operand
                return ('num-same-base',)
            # different base units (EUR/kg : USD/kg, n1 : n2): there is no
            # common scale, a plain number would be wrong
            return ('mustraise',)
        return ('num',)
    dim = O.dim_mul(d1, d2, sign)
    if not dim:
        return ('num',)
    tm = type_for_dim(w, dim)
    if tm is None:
        return ('undef',)
    if tm.ref is not None:
        if ud1 is not None and ud2 is not None and \
                O.dim_mul(ud1, ud2, sign) != w.um[tm.ref].udim:
            return ('skip', 'unit-level dimensions do not reduce')
        return ('qty', tm)
    # result type without reference unit: decided by declared units
    if ud1 is None or ud2 is None:
        return ('undef',) if not tm.units else ('skip', 'no unit dims')
    udim = O.dim_mul(ud1, ud2, sign)
    fac = uf1 * uf2 ** sign
    exact = [s for s in tm.units if w.um[s].udim == udim
             and w.um[s].ufac == fac]
    anyu = [s for s in tm.units if w.um[s].udim == udim]
    return ('noref', tm, udim, fac, exact, anyu)


def base_value(w, sym, x):
    """value of x*sym in the type's reference unit (linear types)"""
    return x * w.um[sym].scale


def judge_qty(w, res, tm, value, what, sig, tuple_form=False, mode=None):
    """res must be a quantity (or (amount, unit) tuple) of type tm whose
    value in the reference unit is `value` (rounded once if quantized)."""
    Q = w.q
    if tuple_form:
        if not (isinstance(res, tuple) and len(res) == 2):
            return [(sig + ':shape', f"{what}: got {res!r}")]
        amnt, unit = res
        if unit is None:
            return [(sig + ':none-unit', f"{what}: got plain ({amnt!r}, "
                     f"None), expected a {tm.name} unit")]
    else:
        if not isinstance(res, Q.Quantity):
            return [(sig + ':not-qty', f"{what}: got {res!r}, expected a "
                     f"{tm.name}")]
        amnt, unit = res.amount, res.unit
        if type(res).__name__ != tm.name or type(res) is not \
                w.types[tm.name]:
            return [(sig + ':type', f"{what}: result type "
                     f"{type(res).__name__}, expected {tm.name}")]
    if unit.qty_cls is not w.types[tm.name]:
        return [(sig + ':type', f"{what}: unit {unit} is a "
                 f"{unit.qty_cls.__name__} unit, expected {tm.name}")]
    if isinstance(amnt, float) or not O.is_exact(amnt):
        return [(sig + ':inexact', f"{what}: amount {amnt!r}")]
    sc = w.um[unit.symbol].scale
    want = value / sc
    if tm.quantum is not None and not tuple_form:
        want = O.round_to(want, tm.quantum / sc, mode or O.get_mode())
    if O.fr(amnt) != want:
        return [(sig + ':value', f"{what}: got {amnt} {unit}, expected "
                 f"{want} {unit}")]
    return []


def judge_num(res, value, what, sig, tuple_form=False):
    if tuple_form:
        if not (isinstance(res, tuple) and len(res) == 2
                and res[1] is None):
            return [(sig + ':shape', f"{what}: got {res!r}, expected "
                     f"({value}, None)")]
        res = res[0]
    if isinstance(res, float) or not O.is_exact(res):
        return [(sig + ':not-number', f"{what}: got {res!r}, expected the "
                 f"plain exact number {value}")]
    if O.fr(res) != value:
        return [(sig + ':value', f"{what}: got {res!r}, expected {value}")]
    return []


def operands(w, kind, s1, a1, s2, a2):
    u1, u2 = w.units[s1], w.units[s2]
    c1, c2 = u1.qty_cls, u2.qty_cls
    if kind == 'qq':
        return c1(O.dec(a1), u1), c2(O.dec(a2), u2), O.val(a1), O.val(a2)
    if kind == 'qu':
        return c1(O.dec(a1), u1), u2, O.val(a1), F(1)
    if kind == 'uq':
        return u1, c2(O.dec(a2), u2), F(1), O.val(a2)
    return u1, u2, F(1), F(1)


def stored(w, sym, x, mode=None):
    """value actually held by Quantity(x, sym) (quantized types round)."""
    tm = w.tm[w.um[sym].tname]
    if tm.quantum is None or w.um[sym].scale is None:
        return x
    return O.round_to(x, tm.quantum / w.um[sym].scale, mode or O.get_mode())


@guarded('C02')
def run_binop(w, op, kind, s1, a1, s2, a2, st=None):
    """-> list of (signature, message)"""
    Q = w.q
    exp = expect_binop(w, op, s1, s2)
    if exp[0] == 'skip':
        return []
    x, y, vx, vy = operands(w, kind, s1, a1, s2, a2)
    if kind[0] == 'q':
        vx = stored(w, s1, vx)
    if kind[1] == 'q':
        vy = stored(w, s2, vy)
    if op == '/' and vy == 0:
        return []           # division by a quantity that rounds to zero
    f = operator.mul if op == '*' else operator.truediv
    what = f"({x!r}) {op} ({y!r})"
    sig = f"C02:{kind}{op}"
    try:
        res = f(x, y)
        err = None
    except Exception as exc:
        res, err = None, exc
    if st is not None:
        st.transitions += 1
        st.evaluations += 1
        st.outcomes[(exp[0], type(err).__name__ if err else
                     type(res).__name__)] += 1
    sign = 1 if op == '*' else -1
    tuple_form = kind == 'uu'
    if exp[0] == 'num-same-base':
        if err is not None:
            return [(sig + ':noref-same-base:raises', f"{what} raised "
                     f"{type(err).__name__}: {err}; the units are derived "
                     "from the same base units, the dimensions cancel")]
        value = (vx * w.um[s1].ufac) / (vy * w.um[s2].ufac)
        return judge_num(res, value, what, sig + ':noref-same-base',
                         kind == 'uu')
    if exp[0] == 'mustraise':
        if isinstance(err, Q.QuantityError):
            return []
        return [(sig + ':noref-units-divided', f"{what}: units of one type "
                 "without common scale; expected a QuantityError, got "
                 f"{type(err).__name__ if err else repr(res)}")]
    if exp[0] == 'undef':
        if isinstance(err, Q.UndefinedResultError):
            return []
        return [(sig + ':undef', f"{what}: no type for that dimension, "
                 f"expected UndefinedResultError, got "
                 f"{type(err).__name__ if err else repr(res)}")]
    if err is not None and exp[0] in ('num', 'qty'):
        return [(sig + f':raises:{exp[0]}',
                 f"{what} raised {type(err).__name__}: {err}; expected "
                 + ("the plain number" if exp[0] == 'num'
                    else f"a {exp[1].name}"))]
    if exp[0] == 'num':
        sc1, sc2 = w.um[s1].scale, w.um[s2].scale
        if sc1 is None:         # units of a no-ref type with equal base units
            value = (vx * w.um[s1].ufac) / (vy * w.um[s2].ufac)
        else:
            value = (vx * sc1) * (vy * sc2) ** sign
        return judge_num(res, value, what, sig, tuple_form)
    if exp[0] == 'qty':
        if w.um[s1].scale is None or w.um[s2].scale is None:
            value = vx * vy ** sign * w.um[s1].ufac * w.um[s2].ufac ** sign \
                / w.um[exp[1].ref].ufac
        else:
            value = (vx * w.um[s1].scale) * (vy * w.um[s2].scale) ** sign
        return judge_qty(w, res, exp[1], value, what, sig, tuple_form)
    # result type without reference unit
    _, tm, udim, fac, exact, anyu = exp
    if err is not None:
        if not isinstance(err, Q.UndefinedResultError):
            return [(sig + ':noref-exc', f"{what} raised "
                     f"{type(err).__name__}")]
        if exact:
            return [(sig + ':noref-missed', f"{what} raised "
                     f"UndefinedResultError although unit {exact[0]} is "
                     "declared")]
        return []
    if not anyu:
        return [(sig + ':noref-invented', f"{what} returned {res!r} although "
                 "no unit of that dimension is declared")]
    if tuple_form:
        amnt, unit = res
    else:
        if not isinstance(res, Q.Quantity):
            return [(sig + ':not-qty', f"{what}: got {res!r}")]
        amnt, unit = res.amount, res.unit
    if unit is None or unit.symbol not in anyu:
        return [(sig + ':noref-unit', f"{what}: result unit {unit} has "
                 "another dimension")]
    want = vx * vy ** sign * fac / w.um[unit.symbol].ufac
    if not O.is_exact(amnt) or O.fr(amnt) != want:
        return [(sig + ':noref-value', f"{what}: got {amnt} {unit}, "
                 f"expected {want}")]
    return []


@guarded('C02')
def run_pow(w, kind, s, a, n, st=None):
    Q = w.q
    tname, dim, sc, ud, uf = udesc(w, s)
    u = w.units[s]
    if kind == 'q':
        x, vx = u.qty_cls(O.dec(a), u), stored(w, s, O.val(a))
    else:
        x, vx = u, F(1)
    what = f"({x!r}) ** {n}"
    sig = f"C02:{kind}**"
    if vx == 0 and n < 0:
        return []
    try:
        res, err = x ** n, None
    except Exception as exc:
        res, err = None, exc
    if st is not None:
        st.transitions += 1
        st.evaluations += 1
    if n == 0:
        if kind == 'u':
            return judge_num(res, F(1), what, sig) if err is None else \
                [(sig + ':raises', f"{what} raised {type(err).__name__}")]
        # quantity ** 0: dimensionless 1
        if err is not None:
            return [(sig + ':raises:zero', f"{what} raised "
                     f"{type(err).__name__}: {err}")]
        return judge_num(res, F(1), what, sig + ':zero')
    rdim = O.dim_pow(dim, n)
    tm = type_for_dim(w, rdim)
    if tm is None:
        if isinstance(err, Q.UndefinedResultError):
            return []
        return [(sig + ':undef', f"{what}: expected UndefinedResultError, "
                 f"got {type(err).__name__ if err else repr(res)}")]
    if tm.ref is None or sc is None:
        return []      # covered by the binary-operation check
    if err is not None:
        return [(sig + ':raises:qty', f"{what} raised "
                 f"{type(err).__name__}: {err}")]
    return judge_qty(w, res, tm, (vx * sc) ** n, what, sig)


@guarded('C02')
def run_num(w, form, s, a, k, st=None):
    """number (op) quantity / unit; form in q*k k*q q/k k/q u*k k*u u/k k/u"""
    Q = w.q
    tname, dim, sc, ud, uf = udesc(w, s)
    u = w.units[s]
    cls = u.qty_cls
    kk, vk = O.dec(k), O.val(k)
    q = cls(O.dec(a), u)
    va = stored(w, s, O.val(a))
    sig = f"C02:num:{form}:{k[0]}"
    tm = w.tm[tname]
    try:
        if form == 'q*k':
            res, want, keep = q * kk, va * vk, True
        elif form == 'k*q':
            res, want, keep = kk * q, va * vk, True
        elif form == 'q/k':
            res, want, keep = q / kk, va / vk, True
        elif form == 'u*k':
            res, want, keep = u * kk, vk, True
        elif form == 'k*u':
            res, want, keep = kk * u, vk, True
        elif form == 'u/k':
            res, want, keep = u / kk, 1 / vk, True
        elif form == 'k/q':
            if va == 0:
                return []
            res, want, keep = kk / q, vk / va, False
        elif form == 'k/u':
            res, want, keep = kk / u, vk, False
        err = None
    except Exception as exc:
        res, err = None, exc
    what = f"{form} with {a} {s}, k={k}"
    if st is not None:
        st.transitions += 1
        st.evaluations += 1
    if form in ('k/q', 'k/u'):
        rdim = O.dim_pow(dim, -1)
        rt = type_for_dim(w, rdim)
        if rt is None:
            if isinstance(err, Q.UndefinedResultError):
                return []
            return [(sig + ':undef', f"{what}: expected UndefinedResultError"
                     f", got {type(err).__name__ if err else repr(res)}")]
        if rt.ref is None or sc is None:
            return []
        if err is not None:
            return [(sig + ':raises', f"{what} raised "
                     f"{type(err).__name__}: {err}")]
        return judge_qty(w, res, rt, want / sc, what, sig)
    if err is not None:
        return [(sig + ':raises', f"{what} raised {type(err).__name__}: "
                 f"{err}")]
    if k[0] == 'p' and isinstance(res, Q.Quantity) and type(res) is cls \
            and res.unit is not u and sc is not None \
            and w.um.get(res.unit.symbol) is not None \
            and w.um[res.unit.symbol].scale is not None:
        # a prefixed unit may be answered in another unit of the type: the
        # value decides
        got = O.fr(res.amount) * w.um[res.unit.symbol].scale
        if isinstance(res.amount, float) or got != want * sc:
            return [(sig + ':value', f"{what}: got {res!r} = {got} "
                     f"{tm.ref}, expected {want * sc}")]
        return []
    if not isinstance(res, Q.Quantity) or type(res) is not cls \
            or res.unit is not u:
        return [(sig + ':keep', f"{what}: result {res!r} does not keep type "
                 "and unit")]
    if tm.quantum is not None and sc is not None:
        want = O.round_to(want, tm.quantum / sc, O.get_mode())
    if isinstance(res.amount, float) or not O.is_exact(res.amount) or \
            O.fr(res.amount) != want:
        return [(sig + ':value', f"{what}: got {res.amount!r}, expected "
                 f"{want}")]
    return []


# ---------------------------------------------------------------------------
# catalogue exploration

def part_pairs(part, a1s, a2s):
    st = Stats()
    w = World(catalogue=True)
    syms = list(w.units)
    for s1 in part:
        for s2 in syms:
            for op in '*/':
                exp = expect_binop(w, op, s1, s2)
                st.state((op, s1, s2), nontrivial=exp[0] in ('num', 'qty'))
                for kind in KINDS:
                    for a1 in (a1s if kind[0] == 'q' else a1s[:1]):
                        for a2 in (a2s if kind[1] == 'q' else a2s[:1]):
                            res = run_binop(w, op, kind, s1, a1, s2, a2, st)
                            st.paths += 1
                            for sig, msg in res:
                                st.violation(sig, msg, {
                                    'world': 'catalogue', 'op': op,
                                    'kind': kind, 'u1': s1, 'a1': a1,
                                    'u2': s2, 'a2': a2})
    return st


def part_pow_num(part, amts, nums):
    st = Stats()
    w = World(catalogue=True)
    for s in part:
        for n in range(-3, 4):
            st.state(('pow', s, n), nontrivial=n not in (0, 1))
            for kind, aa in (('u', amts[:1]), ('q', amts)):
                for a in aa:
                    st.paths += 1
                    for sig, msg in run_pow(w, kind, s, a, n, st):
                        st.violation(sig, msg, {'world': 'catalogue',
                                                'pow': [kind, s, a, n]})
        for form in ('q*k', 'k*q', 'q/k', 'k/q', 'u*k', 'k*u', 'u/k', 'k/u'):
            for k in nums:
                if k[0] == 'S':
                    continue    # stdlib Decimal is not a numbers.Real
                for a in (amts if 'q' in form else amts[:1]):
                    st.paths += 1
                    st.state(('num', form, s, k[0]), nontrivial=True)
                    for sig, msg in run_num(w, form, s, a, k, st):
                        st.violation(sig, msg, {'world': 'catalogue',
                                                'num': [form, s, a, k]})
        # SI prefixes as factors of a unit (every prefix x every unit), also
        # under directed default rounding modes: a prefix is an exact power
        # of ten whatever mode is configured
        for mode in ('ROUND_HALF_EVEN', 'ROUND_UP', 'ROUND_DOWN'):
            O.set_mode(mode)
            for form in ('u*k', 'k*u'):
                for pfx in O.SI_PREFIX_EXP:
                    st.paths += 1
                    st.state(('prefix', form, s, pfx, mode), nontrivial=True)
                    for sig, msg in run_num(w, form, s, amts[0], 'p:' + pfx,
                                            st):
                        st.violation(sig + ':' + mode, f"[{mode}] {msg}",
                                     {'world': 'catalogue', 'mode': mode,
                                      'num': [form, s, amts[0], 'p:' + pfx]})
        O.set_mode('ROUND_HALF_EVEN')
    return st


# ---------------------------------------------------------------------------
# user worlds: base B1 (ref x0), B2 (ref y0), N (no ref: n1, n2); every subset
# of optional derived types and, for the no-ref ones, of their units

BASE = [
    ['type', 'B1', 'x0', None], ['type', 'B2', 'y0', None],
    ['unit', 'B1', 'x1', ['scaled', 'i:1000', 'x0']],
    ['unit', 'B1', 'x2', ['scaled', 'D:0.0254', 'x0']],
    ['unit', 'B2', 'y1', ['scaled', 'i:60', 'y0']],
    ['type', 'N', None, None],
    ['unit', 'N', 'n1', ['none']], ['unit', 'N', 'n2', ['none']],
]
OPTIONAL = [
    [['dtype', 'P', [['B1', 1], ['B2', 1]], None, None],
     ['unit', 'P', 'x1y1', ['derive', ['x1', 'y1']]]],
    [['dtype', 'V', [['B1', 1], ['B2', -1]], None, None],
     ['unit', 'V', 'x1/y1', ['derive', ['x1', 'y1']]]],
    [['dtype', 'S', [['B1', 2]], None, None]],
    [['dtype', 'R', [['B2', -1]], 'r0', None],
     ['unit', 'R', 'r1', ['scaled', 'i:1000', 'r0']]],
    [['dtype', 'C', [['B1', 3]], None, 'F:1/8']],
    [['dtype', 'I2', [['B2', -2]], None, None]],     # 1/B2^2 without B2^2
]
NOREF_UNITS = [      # units of NB = N/B1, each declared or not
    ['unit', 'NB', 'n1/x0', ['derive', ['n1', 'x0']]],
    ['unit', 'NB', 'n1/x1', ['derive', ['n1', 'x1']]],
    ['unit', 'NB', 'n2/x0', ['derive', ['n2', 'x0']]],
]
NB = ['dtype', 'NB', [['N', 1], ['B1', -1]], None, None]


LONG_A = 'QuantityTypeWithAVeryLongNameAlpha'
LONG_B = 'QuantityTypeWithAVeryLongNameBeta'
LONGNAMES = [
    # type names that agree in their first 25 characters
    [['type', LONG_A, 'la', None], ['type', LONG_B, 'lb', None],
     ['unit', LONG_A, 'la2', ['scaled', 'i:12', 'la']],
     ['unit', LONG_B, 'lb2', ['scaled', 'D:0.5', 'lb']],
     ['dtype', 'LongAB', [[LONG_A, 1], [LONG_B, 1]], None, None],
     ['dtype', 'LongAperB', [[LONG_A, 1], [LONG_B, -1]], None, None]],
    [['type', LONG_B, 'lb', None], ['type', LONG_A, 'la', None],
     ['unit', LONG_B, 'lb2', ['scaled', 'D:0.5', 'lb']],
     ['dtype', 'LongBA', [[LONG_B, 1], [LONG_A, 1]], None, None],
     ['dtype', 'LongBperA', [[LONG_B, 2], [LONG_A, -1]], None, None]],
]


NEGATIVE = [
    # units with negative scales, alone and combined
    [['type', 'B1', 'x0', None], ['type', 'B2', 'y0', None],
     ['unit', 'B1', 'xneg', ['scaled', 'F:-1/4', 'x0']],
     ['unit', 'B1', 'x1', ['scaled', 'i:1000', 'x0']],
     ['unit', 'B2', 'yneg', ['scaled', 'i:-60', 'y0']],
     # a plain int factor directly on the reference unit (its reciprocal is
     # no binary fraction)
     ['unit', 'B2', 'y3', ['term', [['i:3', 1], ['y0', 1]]]],
     ['unit', 'B1', 'x7', ['term', [['i:7', 1], ['x0', 1]]]],
     ['dtype', 'P', [['B1', 1], ['B2', 1]], None, None],
     ['unit', 'P', 'xnyn', ['derive', ['xneg', 'yneg']]],
     ['dtype', 'V', [['B1', 1], ['B2', -1]], None, None],
     ['unit', 'V', 'xn/yn', ['derive', ['xneg', 'yneg']]],
     ['unit', 'V', 'x1/yn', ['derive', ['x1', 'yneg']]],
     ['dtype', 'S', [['B1', 2]], None, None],
     ['dtype', 'R', [['B2', -1]], 'r0', None]],
]


_SUB = [['type', 'B1', 'x0', None],
        ['unit', 'B1', 'x1', ['scaled', 'i:1000', 'x0']],
        # a sub-class of B1 with a reference unit of its own: a quantity type
        # (and dimension) of its own
        ['type', 'B1s', 'xs0', None, 'B1'],
        ['unit', 'B1s', 'xs1', ['scaled', 'i:100', 'xs0']],
        ['dtype', 'S', [['B1', 2]], None, None]]
SUBCLASS = [
    _SUB,
    _SUB + [['dtype', 'Ps', [['B1', 1], ['B1s', 1]], None, None],
            ['dtype', 'Vs', [['B1', 1], ['B1s', -1]], None, None]],
    _SUB + [['dtype', 'Vr', [['B1s', 1], ['B1', -1]], 'vr0', None],
            ['dtype', 'Ss', [['B1s', 2]], None, None]],
]


def user_scripts(tier):
    scripts = [list(s) for s in LONGNAMES + NEGATIVE + SUBCLASS]
    for mask in range(2 ** len(OPTIONAL)):
        s = list(BASE)
        for i, evs in enumerate(OPTIONAL):
            if mask >> i & 1:
                s += evs
        scripts.append(s)
    # no-ref derived type: not declared / declared with every unit subset
    for mask in range(2 ** len(NOREF_UNITS)):
        for extra in ([], OPTIONAL[2]):
            s = list(BASE) + extra + [NB]
            for i, ev in enumerate(NOREF_UNITS):
                if mask >> i & 1:
                    s.append(ev)
            scripts.append(s)
    return scripts


def build_warm(script):
    """Declare BASE, evaluate every unit pair once (results ignored; most of
    them raise because their result type does not exist yet), then declare
    the rest: the world is reached from a non-initial evaluation history."""
    w = World()
    split = len(BASE) if script[:len(BASE)] == BASE else 2
    for i, ev in enumerate(script):
        if i == split:
            syms = list(w.units)
            for s1 in syms:
                for s2 in syms:
                    for f in (operator.mul, operator.truediv):
                        for x, y in ((w.units[s1], w.units[s2]),
                                     (w.units[s1].qty_cls(2, w.units[s1]),
                                      w.units[s2].qty_cls(3, w.units[s2]))):
                            try:
                                f(x, y)
                            except Exception:
                                pass
                for n in (-1, 2, 3):
                    try:
                        w.units[s1] ** n
                    except Exception:
                        pass
        res = w.apply(ev)
        if res[0] != 'ok':
            return w, (ev, res)
    return w, None


def part_user(script, a1s, a2s):
    from .c01 import build_world
    st = Stats()
    warm = script and script[0] == 'warm'
    if warm:
        script = script[1]
        w, err = build_warm(script)
    else:
        w, err = build_world(script)
    if err is not None:
        st.violation('C02:user-declaration-rejected',
                     f"valid declaration {err[0]} raised {err[1][1]}: "
                     f"{err[1][2]}", {'world': script})
        return st
    syms = list(w.um)
    for s1 in syms:
        for s2 in syms:
            for op in '*/':
                exp = expect_binop(w, op, s1, s2)
                st.state((tuple(sorted(w.tm)), tuple(sorted(w.um)), op, s1,
                          s2), nontrivial=exp[0] != 'undef')
                for kind in KINDS:
                    for a1 in (a1s if kind[0] == 'q' else a1s[:1]):
                        for a2 in (a2s if kind[1] == 'q' else a2s[:1]):
                            st.paths += 1
                            for sig, msg in run_binop(w, op, kind, s1, a1,
                                                      s2, a2, st):
                                st.violation(sig + (':warm' if warm else ''),
                                             msg, {
                                    'world': script, 'warm': bool(warm),
                                    'op': op, 'kind': kind,
                                    'u1': s1, 'a1': a1, 'u2': s2, 'a2': a2})
        for n in range(-3, 4):
            for kind, a in (('u', 'i:1'), ('q', 'D:1.5'), ('q', 'i:100')):
                st.paths += 1
                for sig, msg in run_pow(w, kind, s1, a, n, st):
                    st.violation(sig, msg, {'world': script,
                                            'pow': [kind, s1, a, n]})
        for form in ('k/q', 'k/u', 'q*k', 'u/k'):
            st.paths += 1
            for sig, msg in run_num(w, form, s1, 'D:2.5', 'F:1/3', st):
                st.violation(sig, msg, {'world': script,
                                        'num': [form, s1, 'D:2.5', 'F:1/3']})
    if len(script) == len(BASE) + 3:
        st.sample({'world': script[len(BASE):],
                   'explored': 'all unit pairs x {*,/} x 4 operand kinds'})
    return st


def replay(case):
    from .c01 import build_world
    if case['world'] == 'catalogue':
        w = World(catalogue=True)
    elif case.get('warm'):
        w, err = build_warm(case['world'])
        if err is not None:
            return [('C02:user-declaration-rejected', str(err))]
    else:
        w, err = build_world(case['world'])
        if err is not None:
            return [('C02:user-declaration-rejected', str(err))]
    O.set_mode(case.get('mode', 'ROUND_HALF_EVEN'))
    if 'pow' in case:
        return run_pow(w, *case['pow'])
    if 'num' in case:
        if case.get('mode'):
            O.set_mode(case['mode'])
            return [(sg + ':' + case['mode'], m)
                    for sg, m in run_num(w, *case['num'])]
        return run_num(w, *case['num'])
    return run_binop(w, case['op'], case['kind'], case['u1'], case['a1'],
                     case['u2'], case['a2'])


def run(tier, seed):
    total = Stats()
    syms = list(O.UNIT_REF)
    if tier == 'thorough':
        a1s, a2s = A1 + ['D:-1.005', 'i:1000000000000'], \
            A2 + ['F:-22/7', 'D:0.000001']
        amts = A1 + ['i:0', 'D:1.005', 'F:1/3']
        nums = NUMS
    else:
        rot = seed % 3
        a1s = A1[rot:] + A1[:rot]
        a2s = A2[rot:] + A2[:rot]
        a1s, a2s = a1s[:2], a2s[:2]
        amts = A1[:2] + ['i:0', 'F:1/3']
        nums = NUMS[:7] + NUMS[-2:]
    total.merge(pmap(part_pairs, [[s] for s in syms], (a1s, a2s)))
    total.merge(pmap(part_pow_num, [syms[i::16] for i in range(16)],
                     (amts, nums)))
    scripts = user_scripts(tier)
    scripts = scripts + [['warm', sc] for sc in scripts]
    total.merge(pmap(part_user, scripts, (a1s[:2], a2s[:2]), fresh=True))
    total.extra['user_worlds'] = len(scripts)
    total.extra['unit_pairs'] = len(syms) ** 2
    total.sample({'world': 'catalogue', 'op': '*', 'kind': 'qq', 'u1': 'min',
                  'a1': a1s[0], 'u2': 'kHz', 'a2': a2s[0],
                  'expect': 'plain number (dimensions cancel)'})
    total.sample({'world': 'catalogue', 'op': '/', 'kind': 'uq', 'u1': 'kWh',
                  'a1': a1s[0], 'u2': 'd', 'a2': a2s[0],
                  'expect': 'Power'})
    return total, dict(
        rule="all 12769 ordered pairs of predefined units x {*, /} x operand "
             "kinds {qty-qty, qty-unit, unit-qty, unit-unit} x amount pairs; "
             "every unit ** n for n in -3..3; numbers of every kind on both "
             "sides; user worlds: every subset of 5 optional derived types "
             "and every subset of 3 units of a no-reference derived type. "
             "distinct state = (op, unit pair) resp. (world, op, unit pair); "
             "non-trivial = a result type or plain number is expected (not "
             "UndefinedResultError)",
        level_text="bounded exhaustive exploration of the real operators "
                   "against dimension arithmetic + declared-type oracle",
        assumptions=["three-valued oracle for result units of types without "
                     "reference unit (DESIGN 4/C02)"])
