"""C03 Addition, subtraction and comparison never mix quantity types.

Engine V over the catalogue: all ordered pairs of distinct types x operators;
quantity vs plain number of every numeric kind, both orders; group laws as a
state graph on every linear type (all unit pairs / triples).
"""
import itertools
import operator
from fractions import Fraction as F

from .. import oracle as O
from ..core import Stats, guarded, pmap
from ..world import World
from . import amounts as A

OPS = {'+': operator.add, '-': operator.sub, '<': operator.lt,
       '<=': operator.le, '>': operator.gt, '>=': operator.ge,
       '==': operator.eq, '!=': operator.ne}
NUMBERS = ['i:3', 'i:0', 'b:True', 'f:2.5', 'F:1/3', 'D:0.5', 'S:1.5',
           'c:1+2j', 'f:inf', 'f:-inf', 'f:nan', 'S:Infinity']
KS = ['i:2', 'F:1/3', 'D:-0.5']


def number(code):
    if code.startswith('c:'):
        return complex(code[2:])
    return O.dec(code)


@guarded('C03')
def run_mixed(w, s1, s2, opname):
    """quantities of two different types: + - < <= > >= raise
    IncompatibleUnitsError, == is False, != is True, sum raises."""
    Q = w.q
    out = []
    sc1, sc2 = w.um[s1].scale, w.um[s2].scale
    pairs = [(2, 3), (0, 0), (F(0), 0)]
    if sc1 is not None and sc2 is not None:
        # equal values in the two reference units
        pairs.append((F(1), F(sc1) / F(sc2)))
    for x, y in pairs:
        out += _mixed_one(w, s1, s2, opname, x, y)
    return out


def _mixed_one(w, s1, s2, opname, x, y):
    Q = w.q
    u1, u2 = w.units[s1], w.units[s2]
    a, b = u1.qty_cls(x, u1), u2.qty_cls(y, u2)
    what = f"({x} {s1}) {opname} ({y} {s2})"
    try:
        if opname == 'sum':
            res = Q.sum([a, b])
        else:
            res = OPS[opname](a, b)
    except Q.IncompatibleUnitsError:
        if opname in ('==', '!='):
            return [(f'C03:mixed:{opname}', f"{what} raised")]
        return []
    except Exception as exc:
        return [(f'C03:mixed:{opname}', f"{what} raised "
                 f"{type(exc).__name__} instead of IncompatibleUnitsError")]
    if opname == '==' and res is False:
        return []
    if opname == '!=' and res is True:
        return []
    return [(f'C03:mixed:{opname}', f"{what} produced {res!r}")]


@guarded('C03')
def run_number(w, s, k, opname, order):
    """quantity (op) plain number: TypeError, == False, != True."""
    u = w.units[s]
    q = u.qty_cls(2, u)
    n = number(k)
    what = f"(2 {s}) {opname} {k}" if order == 'qn' else \
        f"{k} {opname} (2 {s})"
    try:
        res = OPS[opname](q, n) if order == 'qn' else OPS[opname](n, q)
    except TypeError:
        if opname in ('==', '!='):
            return [(f'C03:number:{opname}', f"{what} raised TypeError")]
        return []
    except Exception as exc:
        return [(f'C03:number:{opname}:{k[0]}', f"{what} raised "
                 f"{type(exc).__name__} instead of TypeError")]
    if opname == '==' and res is False:
        return []
    if opname == '!=' and res is True:
        return []
    return [(f'C03:number:{opname}:{k[0]}', f"{what} produced {res!r}")]


def refval(w, s, x):
    return x * w.um[s].scale


def stored(w, s, x):
    tm = w.tm[w.um[s].tname]
    if tm.quantum is None:
        return x
    return O.round_to(x, tm.quantum / w.um[s].scale, O.get_mode())


def chk_q(w, res, cls, s, want, what, sig):
    if type(res) is not cls or res.unit is not w.units[s]:
        return [(sig + ':type', f"{what}: result {res!r} is not a "
                 f"{cls.__name__} in {s}")]
    if isinstance(res.amount, float) or not O.is_exact(res.amount) or \
            O.fr(res.amount) != want:
        return [(sig + ':value', f"{what}: got {res.amount!r} {s}, expected "
                 f"{want}")]
    return []


@guarded('C03')
def run_pair(w, tname, s1, a1, s2, a2, st=None):
    """a+b, a-b, b+a, neg, abs, sum; result in left unit; value exact."""
    Q = w.q
    cls = w.types[tname]
    tm = w.tm[tname]
    out = []
    q1, q2 = cls(O.dec(a1), w.units[s1]), cls(O.dec(a2), w.units[s2])
    x1, x2 = stored(w, s1, O.val(a1)), stored(w, s2, O.val(a2))
    sc1, sc2 = w.um[s1].scale, w.um[s2].scale
    x2_in_1 = x2 * sc2 / sc1

    def rnd(x, s):
        return stored(w, s, x)
    tag = f'C03:{tname}'
    out += chk_q(w, q1 + q2, cls, s1, rnd(x1 + x2_in_1, s1),
                 f"({q1}) + ({q2})", tag + ':add')
    out += chk_q(w, q1 - q2, cls, s1, rnd(x1 - x2_in_1, s1),
                 f"({q1}) - ({q2})", tag + ':sub')
    out += chk_q(w, -q1, cls, s1, -x1, f"-({q1})", tag + ':neg')
    out += chk_q(w, abs(q1), cls, s1, abs(x1), f"abs({q1})", tag + ':abs')
    out += chk_q(w, +q1, cls, s1, x1, f"+({q1})", tag + ':pos')
    out += chk_q(w, Q.sum([q1, q2]), cls, s1, rnd(x1 + x2_in_1, s1),
                 f"sum([{q1}, {q2}])", tag + ':sum')
    # one and the same object as both operands
    out += chk_q(w, q1 - q1, cls, s1, rnd(x1 - x1, s1),
                 f"x - x with x = {q1}", tag + ':self-operand')
    out += chk_q(w, q1 + q1, cls, s1, rnd(x1 + x1, s1),
                 f"x + x with x = {q1}", tag + ':self-operand')
    # augmented assignment: the same sum / difference, and the object the
    # name was bound to before is left as it was
    for opn, want in (('+=', rnd(x1 + x2_in_1, s1)),
                      ('-=', rnd(x1 - x2_in_1, s1))):
        left = cls(O.dec(a1), w.units[s1])
        keep, h0 = left, hash(left)
        if opn == '+=':
            left += q2
        else:
            left -= q2
        out += chk_q(w, left, cls, s1, want, f"({q1}) {opn} ({q2})",
                     tag + ':augmented')
        if O.fr(keep.amount) != x1 or keep.unit is not w.units[s1] or \
                hash(keep) != h0:
            out.append((tag + ':augmented:mutates',
                        f"s = a; s {opn} ({q2}) changed a from {x1} {s1} to "
                        f"{keep!r}"))
    if st is not None:
        st.transitions += 8
        st.evaluations += 8
    if tm.quantum is None:
        # commutative by value, negation is the inverse
        l, r = q1 + q2, q2 + q1
        if not (l == r) or O.fr(l.amount) * sc1 != O.fr(r.amount) * sc2:
            out.append((tag + ':commutative', f"({q1}) + ({q2}) != "
                        f"({q2}) + ({q1})"))
        z = (q1 + q2) - q2
        if O.fr(z.amount) != x1 or z.unit is not w.units[s1]:
            out.append((tag + ':inverse', f"(({q1}) + ({q2})) - ({q2}) = "
                        f"{z}"))
        z = q1 + (-q1)
        if O.fr(z.amount) != 0:
            out.append((tag + ':inverse', f"({q1}) + -({q1}) = {z}"))
        for k in KS:
            kk, vk = O.dec(k), O.val(k)
            lhs = kk * (q1 + q2)
            rhs = kk * q1 + kk * q2
            want = vk * (x1 + x2_in_1)
            if O.fr(lhs.amount) != want or O.fr(rhs.amount) != want or \
                    lhs.unit is not rhs.unit:
                out.append((tag + ':distributive',
                            f"{k}*(({q1})+({q2})) = {lhs}; sum of products "
                            f"= {rhs}; expected {want} {s1}"))
        if st is not None:
            st.transitions += 8
            st.evaluations += 6
    return out


@guarded('C03')
def run_triple(w, tname, s, a):
    """associativity by value over three quantities"""
    cls = w.types[tname]
    qs = [cls(O.dec(x), w.units[u]) for u, x in zip(s, a)]
    vs = [O.val(x) * w.um[u].scale for u, x in zip(s, a)]
    l = (qs[0] + qs[1]) + qs[2]
    r = qs[0] + (qs[1] + qs[2])
    want = sum(vs)
    out = []
    sc0 = w.um[s[0]].scale
    if O.fr(l.amount) * sc0 != want or O.fr(r.amount) * sc0 != want or \
            not (l == r) or l.unit is not w.units[s[0]] or \
            r.unit is not w.units[s[0]]:
        out.append((f'C03:{tname}:associative',
                    f"({qs[0]} + {qs[1]}) + {qs[2]} = {l}; "
                    f"{qs[0]} + ({qs[1]} + {qs[2]}) = {r}; expected "
                    f"{want / sc0} {s[0]}"))
    return out


@guarded('C03')
def run_temp(w, s1, a1, s2, a2):
    """table-converted type: result in left unit, value a + conv(b)"""
    cls = w.types['Temperature']
    q1, q2 = cls(O.dec(a1), w.units[s1]), cls(O.dec(a2), w.units[s2])
    b_in_1 = O.temp_from_kelvin(s1, O.temp_to_kelvin(s2, O.val(a2)))
    out = []
    out += chk_q(w, q1 + q2, cls, s1, O.val(a1) + b_in_1,
                 f"({q1}) + ({q2})", 'C03:Temperature:add')
    out += chk_q(w, q1 - q2, cls, s1, O.val(a1) - b_in_1,
                 f"({q1}) - ({q2})", 'C03:Temperature:sub')
    return out


# ---------------------------------------------------------------------------

def part_mixed(part):
    st = Stats()
    w = World(catalogue=True)
    first = {}
    for tname, tm in w.tm.items():
        first[tname] = tm.units[:2]
    for s1 in part:
        t1 = w.um[s1].tname
        for t2 in w.tm:
            if t2 == t1:
                continue
            for s2 in first[t2]:
                for opname in list(OPS) + ['sum']:
                    st.transitions += 4
                    st.evaluations += 4
                    st.paths += 1
                    st.state(('mixed', t1, t2, opname), nontrivial=True)
                    for sig, msg in run_mixed(w, s1, s2, opname):
                        st.violation(sig, msg, {'mixed': [s1, s2, opname]})
        for k in NUMBERS:
            for opname in OPS:
                for order in ('qn', 'nq'):
                    st.transitions += 1
                    st.evaluations += 1
                    st.paths += 1
                    st.state(('number', t1, k, opname, order),
                             nontrivial=True)
                    for sig, msg in run_number(w, s1, k, opname, order):
                        st.violation(sig, msg,
                                     {'number': [s1, k, opname, order]})
    return st


def part_mixed_user(_):
    """(fresh fork) types without reference unit that are not predefined:
    Money (with and without an active converter) and a user type; against
    predefined types, both operand orders"""
    from datetime import date
    st = Stats()
    w = World(catalogue=True)
    for ev in (['cur', 'EUR'], ['cur', 'USD'], ['type', 'NR', None, None],
               ['unit', 'NR', 'nr1', ['none']],
               ['type', 'UB', 'ub0', None],
               ['type', 'Pct', '%', None],
               ['unit', 'Pct', '%vol', ['scaled', 'i:2', '%']],
               ['dtype', 'PPM', [['Money', 1], ['Mass', -1]], None, None],
               ['unit', 'PPM', 'EUR/kg', ['derive', ['EUR', 'kg']]],
               # a Python sub-class of a quantity type, with a reference unit
               # of its own: a different quantity type
               ['type', 'UBs', 'ubs0', None, 'UB'],
               ['unit', 'UBs', 'kubs', ['scaled', 'i:1000', 'ubs0']],
               # a type whose class has the name of a predefined one
               ['type', 'Length#2', 'ell', None]):
        w.must(ev)
    from quantity.money import Money, MoneyConverter
    conv = MoneyConverter(w.units['EUR'], lambda: date(2020, 1, 1))
    conv.update(None, [(w.units['USD'], O.dec('D:1.25'), 1)])
    mine = ['EUR', 'nr1', 'ub0', 'EUR/kg', '%', '%vol', 'ubs0', 'kubs', 'ell']
    theirs = ['m', 'kg', '°C', 'B', 'kWh']

    def sweep(tag):
        pairs = [(a, b) for a in mine for b in theirs] + \
            [(b, a) for a in mine for b in theirs] + \
            [(a, b) for a in mine for b in mine
             if w.um[a].tname != w.um[b].tname]
        for s1, s2 in pairs:
            for opname in list(OPS) + ['sum']:
                st.paths += 1
                st.transitions += 3
                st.evaluations += 3
                st.state(('mixed-user', tag, s1, s2, opname),
                         nontrivial=True)
                for x, y in ((2, 3), (0, 0), (F(0), 5)):
                    for sig, msg in _mixed_one(w, s1, s2, opname, x, y):
                        st.violation(sig + ':user-types' + tag, msg,
                                     {'mixed_user': [s1, s2, opname, str(x),
                                                     str(y), tag]})
    sweep('')
    with conv:
        sweep(':converter-active')
    return st


USER_NG = [
    ['type', 'NG', 'g0', None],
    ['unit', 'NG', 'gneg', ['scaled', 'F:-1/4', 'g0']],      # negative scale
    ['unit', 'NG', 'kgneg', ['scaled', 'i:1000', 'gneg']],
    ['unit', 'NG', 'g2', ['scaled', 'i:2', 'g0']],
    ['unit', 'NG', 'g1b', ['scaled', 'i:1', 'g0']],          # scale-1 alias
]


def group_world(tname):
    w = World(catalogue=True)
    if tname == 'NG':           # only in a fresh fork
        for ev in USER_NG:
            w.must(ev)
    return w


def part_group(part, amts, triple_amts):
    tname, s1 = part
    st = Stats()
    w = group_world(tname)
    syms = w.tm[tname].units
    for s2 in syms:
        for a1 in amts:
            for a2 in amts:
                st.paths += 1
                st.state((tname, s1, a1, s2, a2),
                         nontrivial=(s1 != s2 and a1 != 'i:0'
                                     and a2 != 'i:0'))
                for sig, msg in run_pair(w, tname, s1, a1, s2, a2, st):
                    st.violation(sig, msg, {'pair': [tname, s1, a1, s2, a2]})
    if w.tm[tname].quantum is None:
        for s2 in syms:
            for s3 in syms:
                for trip in triple_amts:
                    st.paths += 1
                    st.transitions += 4
                    st.evaluations += 1
                    for sig, msg in run_triple(w, tname, [s1, s2, s3], trip):
                        st.violation(sig, msg, {'triple': [tname,
                                                           [s1, s2, s3],
                                                           trip]})
    return st


def part_temp(part, amts):
    st = Stats()
    w = World(catalogue=True)
    for s1 in part:
        for s2 in ('°C', '°F', 'K'):
            for a1 in amts:
                for a2 in amts:
                    st.paths += 1
                    st.transitions += 2
                    st.evaluations += 2
                    st.state(('temp', s1, a1, s2, a2), nontrivial=s1 != s2)
                    for sig, msg in run_temp(w, s1, a1, s2, a2):
                        st.violation(sig, msg, {'temp': [s1, a1, s2, a2]})
    return st


def replay(case):
    if 'mixed_user' in case:
        from ..hist import fork_call
        st = fork_call(part_mixed_user, 0)
        return [(sig, ent[1]) for sig, ent in st.viol.items()]
    w = World(catalogue=True)
    for k in ('pair', 'triple'):
        if k in case and case[k][0] == 'NG':
            w = group_world('NG')
    if 'mixed' in case:
        return run_mixed(w, *case['mixed'])
    if 'number' in case:
        return run_number(w, *case['number'])
    if 'pair' in case:
        return run_pair(w, *case['pair'])
    if 'triple' in case:
        return run_triple(w, *case['triple'])
    if 'temp' in case:
        return run_temp(w, *case['temp'])
    raise ValueError(case)


def run(tier, seed):
    total = Stats()
    syms = list(O.UNIT_REF)
    total.merge(pmap(part_mixed, [syms[i::16] for i in range(16)]))
    total.merge(pmap(part_mixed_user, [0], fresh=True))
    amts = A.pick(tier, seed)
    if tier == 'quick':
        amts = amts[:9] + amts[-3:]
    # a tiny decimal: sums across units need more than 64 fractional digits
    amts = amts + ['D:1E-60']
    triples = [['i:1', 'D:-2.5', 'F:1/3'], ['D:1.005', 'F:-2/7', 'i:7'],
               ['D:0.000001', 'i:1000000000000', 'D:0.5']]
    parts = [(t, s) for t in O.LINEAR_TYPES for s in O.CATALOGUE[t][3]]
    total.merge(pmap(part_group, parts, (amts, triples)))
    total.merge(pmap(part_group, [('NG', ev[2]) for ev in USER_NG],
                     (amts, triples), fresh=True))
    total.merge(pmap(part_temp, [['°C'], ['°F'], ['K']], (amts,)))
    total.sample({'pair': ['Length', 'mi', 'D:1.005', 'in', 'F:-2/7'],
                  'checks': 'add sub neg abs sum commutative inverse '
                            'distributive'})
    total.sample({'mixed': ['kWh', 'kg', '<']})
    total.sample({'number': ['m', 'S:1.5', '+', 'nq']})
    total.extra['amount_alphabet'] = amts
    return total, dict(
        rule="every unit x every other type (2 units each) x 9 operators; "
             "every unit x 8 number kinds x 8 operators x both orders; per "
             "linear type (predefined ones and a user type with negative, equal "
             "and alias scales) all ordered unit pairs x amount pairs (add, sub, "
             "neg, abs, sum, commutativity, inverse, distributivity) and all "
             "unit triples x 3 amount triples (associativity); temperature: "
             "all unit pairs x amount pairs. non-trivial = different units "
             "and non-zero amounts / every mixed-type case",
        level_text="bounded exhaustive exploration against Fraction "
                   "reference values from the scale table",
        assumptions=["group laws only for types with a reference unit; "
                     "distributivity only for types without quantum"])
