"""C04 Equality and ordering agree with exact reference values.

Engine V: per linear type all ordered (unit, amount) pairs x six operators,
with amounts that are exactly equal across units and near-ties, held as
Decimal and as Fraction; sorted() of every 4-multiset of a value list; unit
ordering by scale.
"""
import itertools
import operator
from fractions import Fraction as F

from .. import oracle as O
from ..core import Stats, guarded, pmap
from ..world import World
from . import amounts as A

OPS = {'<': operator.lt, '<=': operator.le, '==': operator.eq,
       '!=': operator.ne, '>=': operator.ge, '>': operator.gt}
EPS = F(1, 10 ** 12)


def mk(w, cls, s, x, rep):
    """quantity holding exactly x in unit s, as Decimal if possible (rep 'D')
    or as Fraction (rep 'F')"""
    from decimalfp import Decimal
    x = F(x)
    if rep == 'F':
        return cls(x, w.units[s])
    try:
        return cls(Decimal(x), w.units[s])
    except ValueError:
        return cls(x, w.units[s])


@guarded('C04')
def run_cmp(w, tname, s1, x1, r1, s2, x2, r2, st=None):
    cls = w.types[tname]
    q1, q2 = mk(w, cls, s1, x1, r1), mk(w, cls, s2, x2, r2)
    v1 = O.fr(q1.amount) * w.um[s1].scale
    v2 = O.fr(q2.amount) * w.um[s2].scale
    out = []
    n_true = 0
    for name, op in OPS.items():
        try:
            got = op(q1, q2)
        except Exception as exc:
            out.append((f'C04:{tname}:{name}:raises',
                        f"({q1}) {name} ({q2}) raised "
                        f"{type(exc).__name__}: {exc}"))
            continue
        want = op(v1, v2)
        if got is not want:
            out.append((f'C04:{tname}:{name}',
                        f"({q1!r}) {name} ({q2!r}) is {got!r}; reference "
                        f"values {v1} {name} {v2} is {want}"))
        if name in ('<', '==', '>') and got is True:
            n_true += 1
    if not out and n_true != 1:
        out.append((f'C04:{tname}:trichotomy', f"{q1} vs {q2}"))
    if st is not None:
        st.transitions += 6
        st.evaluations += 7
    return out


@guarded('C04')
def run_units(w, tname, s1, s2):
    out = []
    u1, u2 = w.units[s1], w.units[s2]
    for name, op in OPS.items():
        want = op(w.um[s1].scale, w.um[s2].scale)
        try:
            got = op(u1, u2)
        except Exception as exc:
            out.append((f'C04:unit:{name}:raises', f"{s1} {name} {s2} raised "
                        f"{type(exc).__name__}"))
            continue
        if got is not want:
            out.append((f'C04:unit:{name}', f"Unit({s1}) {name} Unit({s2}) "
                        f"is {got!r}, scales say {want}"))
    return out


@guarded('C04')
def run_sorted(w, tname, items):
    """items: [[sym, value as 'n/d', rep], ...]; sorted() must order by
    reference value (stable for equal values)."""
    cls = w.types[tname]
    qs = [mk(w, cls, s, F(x), r) for s, x, r in items]
    keys = [O.fr(q.amount) * w.um[q.unit.symbol].scale for q in qs]
    got = sorted(range(len(qs)), key=lambda i: Key(qs[i]))
    want = sorted(range(len(qs)), key=lambda i: keys[i])
    if [keys[i] for i in got] != [keys[i] for i in want]:
        return [(f'C04:{tname}:sorted', f"sorted({qs}) gives order {got}, "
                 f"reference values {keys}")]
    s2 = sorted(qs)
    k2 = [O.fr(q.amount) * w.um[q.unit.symbol].scale for q in s2]
    if k2 != sorted(keys):
        return [(f'C04:{tname}:sorted', f"sorted({qs}) = {s2}")]
    return []


class Key:
    __slots__ = ('q',)

    def __init__(self, q):
        self.q = q

    def __lt__(self, other):
        return self.q < other.q


USER = [
    ['type', 'NG', 'g0', None],
    ['unit', 'NG', 'gneg', ['scaled', 'F:-1/4', 'g0']],      # negative scale
    ['unit', 'NG', 'kgneg', ['scaled', 'i:1000', 'gneg']],
    ['unit', 'NG', 'g2', ['scaled', 'i:2', 'g0']],
    ['unit', 'NG', 'g2b', ['term', [['D:0.5', 1], ['g0', 1], ['i:4', 1]]]],
    ['unit', 'NG', 'g1b', ['scaled', 'i:1', 'g0']],          # equal scales
    # scales that are no finite decimals
    ['unit', 'NG', 'gthird', ['scaled', 'F:1/3', 'g0']],
    ['unit', 'NG', 'g22_7', ['scaled', 'F:22/7', 'g0']],
    # factors of an integer type that is not derived from int
    ['unit', 'NG', 'gI3', ['term', [['I:3', 1], ['g0', 1]]]],
    ['unit', 'NG', 'gI7', ['term', [['I:7', 1], ['g0', 1]]]],
]


def make_world():
    w = World(catalogue=True)
    for ev in USER:
        w.must(ev)
        # quantities and units are ordered while the type is still being
        # built up: nothing learnt about it then may be kept for good
        cls = w.types['NG']
        us = [w.units[s] for s in w.tm['NG'].units]
        for u1 in us:
            for u2 in us:
                cls(1, u1) < cls(2, u2), u1 <= u2, cls(1, u1) == cls(1, u2)
    return w


QUSER = [
    # a quantized type with units finer than / no multiple of the quantum
    ['type', 'CQ', 'c0', 'D:0.01'],
    ['unit', 'CQ', 'cmill', ['term', [['D:0.001', 1], ['c0', 1]]]],
    ['unit', 'CQ', 'chalf', ['term', [['D:0.005', 1], ['c0', 1]]]],
    ['unit', 'CQ', 'c1hc', ['term', [['D:0.015', 1], ['c0', 1]]]],
    ['unit', 'CQ', 'c2c', ['scaled', 'D:0.02', 'c0']],
    ['unit', 'CQ', 'c100', ['scaled', 'i:100', 'c0']],
]


def part_qunits(mode):
    """units of quantized types order by their scales, too (whatever the
    configured rounding mode and the quantum are)"""
    st = Stats()
    O.set_mode(mode)
    w = World(catalogue=True)
    for ev in QUSER:
        w.must(ev)
    for tname in ('CQ', 'DataVolume'):
        syms = w.tm[tname].units
        for s1 in syms:
            for s2 in syms:
                st.paths += 1
                st.transitions += 6
                st.evaluations += 6
                st.state(('qunits', tname, s1, s2, mode), nontrivial=s1 != s2)
                for sig, msg in run_units(w, tname, s1, s2):
                    st.violation(sig + ':quantized-type', msg,
                                 {'qunits': [tname, s1, s2, mode]})
    return st


def values_for(w, tname, s1, s2, base):
    """amounts for s2 that are equal / near-equal to base*s1"""
    eq = base * w.um[s1].scale / w.um[s2].scale
    return [eq, eq + EPS, eq - EPS]


def part(p, amts):
    tname, s1 = p
    st = Stats()
    w = make_world()
    tm = w.tm[tname]
    if tm.quantum is not None:
        grid = True
    else:
        grid = False
    syms = tm.units
    for s2 in syms:
        st.paths += 1
        for sig, msg in run_units(w, tname, s1, s2):
            st.violation(sig, msg, {'units': [tname, s1, s2]})
        st.transitions += 6
        st.evaluations += 6
        for a in amts:
            x1 = O.val(a)
            cands = [O.val(b) for b in amts[:6]] + \
                values_for(w, tname, s1, s2, x1)
            for x2 in cands:
                for r1 in 'DF':
                    for r2 in 'DF':
                        st.paths += 1
                        st.state((tname, s1, x1, s2, x2),
                                 nontrivial=(s1 != s2))
                        res = run_cmp(w, tname, s1, x1, r1, s2, x2, r2, st)
                        for sig, msg in res:
                            st.violation(sig, msg, {'cmp': [
                                tname, s1, str(x1), r1, s2, str(x2), r2]})
    return st


def part_sorted(p):
    tname = p
    st = Stats()
    w = make_world()
    syms = w.tm[tname].units
    a, b, c = syms[0], syms[len(syms) // 2], syms[-1]
    sa, sb, sc = (w.um[s].scale for s in (a, b, c))
    # six values, two of them equal across units, one near tie
    vals = [[a, F(1), 'D'], [b, sa / sb, 'F'], [c, sa / sc + EPS, 'F'],
            [a, F(-2, 7), 'F'], [b, F(5, 2), 'D'], [c, F(0), 'D']]
    vals = [[s, str(x), r] for s, x, r in vals]
    for combo in itertools.combinations_with_replacement(range(6), 4):
        for perm in set(itertools.permutations(combo)):
            items = [vals[i] for i in perm]
            st.paths += 1
            st.transitions += 1
            st.evaluations += 1
            st.state(('sorted', tname, perm), nontrivial=len(set(perm)) > 1)
            for sig, msg in run_sorted(w, tname, items):
                st.violation(sig, msg, {'sorted': [tname, items]})
    return st


def replay(case):
    w = make_world()
    if 'cmp' in case:
        t, s1, x1, r1, s2, x2, r2 = case['cmp']
        return run_cmp(w, t, s1, F(x1), r1, s2, F(x2), r2)
    if 'qunits' in case:
        tname, s1, s2, mode = case['qunits']
        O.set_mode(mode)
        for ev in QUSER:
            w.must(ev)
        return [(sig + ':quantized-type', m)
                for sig, m in run_units(w, tname, s1, s2)]
    if 'units' in case:
        return run_units(w, *case['units'])
    if 'sorted' in case:
        return run_sorted(w, *case['sorted'])
    raise ValueError(case)


def run(tier, seed):
    total = Stats()
    amts = A.pick(tier, seed)
    if tier == 'quick':
        amts = amts[:9] + amts[-3:]
    amts = [a for a in amts if a != 'F:1/2']
    parts = [(t, s) for t in O.LINEAR_TYPES if O.CATALOGUE[t][2] is None
             for s in O.CATALOGUE[t][3]]
    parts += [('NG', ev[2]) for ev in USER]
    total.merge(pmap(part, parts, (amts,), fresh=True))
    total.merge(pmap(part_sorted, [t for t in O.LINEAR_TYPES
                                   if O.CATALOGUE[t][2] is None
                                   and len(O.CATALOGUE[t][3]) >= 2] + ['NG'],
                     fresh=True))
    total.merge(pmap(part_qunits, ['ROUND_HALF_EVEN', 'ROUND_HALF_UP',
                                   'ROUND_UP', 'ROUND_DOWN'], fresh=True))
    total.sample({'cmp': ['Length', 'mi', '1', 'D', 'in', '63360', 'F'],
                  'meaning': '1 mi vs 63360 in (equal), all six operators'})
    total.sample({'cmp': ['Length', 'mi', '1', 'D', 'in',
                          str(F(63360) + EPS), 'F'], 'meaning': 'near tie'})
    total.extra['amount_alphabet'] = amts
    return total, dict(
        rule="per non-quantized linear type (13 predefined and a user type "
             "with negative, equal and scale-1 alias units): all ordered unit pairs x amount "
             "alphabet x {6 alphabet amounts, the exactly equal partner "
             "a*s(u)/s(v), and its neighbours +-1e-12} x {Decimal, Fraction}"
             "^2 x six operators + trichotomy; unit ordering for all unit "
             "pairs; sorted() of every arrangement of every 4-multiset of a "
             "6-value list. non-trivial = different units",
        level_text="bounded exhaustive exploration; oracle = the same "
                   "operator on Fraction reference values",
        assumptions=["quantized types (DataVolume) are compared in C05; "
                     "reflexivity/symmetry/transitivity follow from "
                     "agreement with the total order on Fractions"])
