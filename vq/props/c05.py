"""C05 Quantized types hold the nearest multiple of the quantum, rounded once.

Configurations: 8 default rounding modes x worlds {DataVolume, Money with
currencies of 0/2/3/4 minor units and a 0.05 currency, user base type with
quantum 1/3 and units scaled by 7 and 1/10, user derived quantized types P^2
and 1/P}.  Every producing operation on amounts around grid points; the result
must be the exact result on the stored operands rounded exactly once.
Each (world, mode) runs in a fresh fork.
"""
import decimal as stddec
from fractions import Fraction as F

from .. import oracle as O
from ..core import Stats, pmap
from ..world import World
from .c01 import build_world

TGRID = [F(0), F(1), F(1, 2), F(3, 2), F(1, 4), F(3, 4), F(5, 2), F(-1, 2),
         F(-3, 2), F(-1, 4), F(-5, 4), F(-5, 2), F(7), F(21, 2), F(1, 3),
         F(-2, 3), F(9, 2), F(-9, 2), F(10 ** 9) + F(1, 2)]
KS = ['i:3', 'D:0.5', 'F:1/3', 'D:-1.5', 'F:7/2']
LONG_KS = ['D:151.234567', 'D:0.910523', 'F:1000001/3000000']

USER = [
    ['type', 'P', 'p0', 'F:1/3'],
    ['unit', 'P', 'p7', ['scaled', 'i:7', 'p0']],
    ['unit', 'P', 'pt', ['term', [['D:0.1', 1], ['p0', 1]]]],
    ['dtype', 'P2', [['P', 2]], None, 'D:0.25'],
    ['unit', 'P2', 'p7²', ['derive', ['p7']]],
    ['unit', 'P2', 'pt²', ['derive', ['pt']]],
    ['dtype', 'PI', [['P', -1]], 'pi0', 'i:2'],
    ['unit', 'PI', 'pi7', ['term', [['p7', -1]]]],
    ['type', 'PQ', 'q0', 'D:0.05'],       # same unit scales, other quantum
    ['unit', 'PQ', 'q7', ['scaled', 'i:7', 'q0']],
    ['unit', 'PQ', 'qt', ['term', [['D:0.1', 1], ['q0', 1]]]],
    ['unit', 'PQ', 'qn', ['scaled', 'i:-2', 'q0']],       # negative scale
    ['type', 'L', 'l0', None],
    ['unit', 'L', 'l1', ['scaled', 'D:0.3', 'l0']],
    ['dtype', 'PL', [['P', 1], ['L', 1]], None, 'F:1/7'],
    ['dtype', 'PpL', [['P', 1], ['L', -1]], None, None],
    ['unit', 'PpL', 'p7/l1', ['derive', ['p7', 'l1']]],
]


class Ck:
    """collects judgements for one (world, mode)"""

    def __init__(self, w, st, mode, world_name):
        self.w, self.st, self.mode, self.world = w, st, mode, world_name

    def grid(self, unit):
        """quantum of `unit` by the model (never unit.quantum)"""
        sym = unit.symbol
        um = self.w.um[sym]
        tm = self.w.tm[um.tname]
        if um.tname == 'Money':
            return self.w.sf[sym]
        return tm.quantum / um.scale

    def judge(self, op, res, exact, case, unit=None):
        """res: produced quantity; exact: Fraction, the exact result in
        res.unit computed from the stored operands."""
        st = self.st
        st.transitions += 1
        st.evaluations += 1
        Q = self.w.q
        if not isinstance(res, Q.Quantity):
            st.violation(f'C05:{op}:not-qty', f"{case}: got {res!r}", case)
            return
        if unit is not None and res.unit is not unit:
            st.violation(f'C05:{op}:unit', f"{case}: result unit {res.unit}",
                         case)
            return
        g = self.grid(res.unit)
        if callable(exact):
            exact = exact(res.unit)
        a = res.amount
        if isinstance(a, float) or not O.is_exact(a):
            st.violation(f'C05:{op}:inexact', f"{case}: amount {a!r}", case)
            return
        a = O.fr(a)
        if (a / g).denominator != 1:
            st.violation(f'C05:{op}:off-grid', f"{case}: amount {a} is not a "
                         f"multiple of the quantum {g} of {res.unit}", case)
            return
        want = O.round_to(exact, g, self.mode)
        tie = ((exact / g) * 2).denominator == 1 and \
            (exact / g).denominator == 2
        st.outcomes['tie' if tie else
                    'on-grid' if (exact / g).denominator == 1
                    else 'between'] += 1
        if a != want:
            d = abs(a - exact) / g
            st.violation(f'C05:{op}:round-once',
                         f"{case}: got {a} {res.unit}, exact result {exact}, "
                         f"rounded once ({self.mode}) {want}; deviation "
                         f"{d} quanta", case)

    def stored(self, unit, x):
        return O.round_to(x, self.grid(unit), self.mode)


def as_kinds(x):
    """spellings of the exact value x for the constructor"""
    from decimalfp import Decimal
    out = [('F', F(x))]
    try:
        d = Decimal(F(x))
        out.append(('D', d))
        out.append(('s', str(d)))
        out.append(('S', stddec.Decimal(str(d))))
    except ValueError:
        out.append(('s', f"{x.numerator}/{x.denominator}"))
    if x.denominator == 1:
        out.append(('i', int(x)))
    try:
        fl = float(x)
        if F(fl) == x:
            out.append(('f', fl))
    except OverflowError:
        pass
    return out


def explore_type(ck, tname, syms, other_syms, light=False):
    w, st = ck.w, ck.st
    Q = w.q
    cls = w.types[tname]
    mode = ck.mode
    base = {'world': ck.world, 'mode': mode}
    for s in syms:
        u = w.units[s]
        g = ck.grid(u)
        xs = [t * g for t in TGRID]
        for x in xs:
            st.state((ck.world, tname, s, x / g), nontrivial=(x / g)
                     .denominator != 1)
            # --- constructors
            for kind, v in as_kinds(x):
                c = dict(base, op='ctor', kind=kind, unit=s, x=str(x))
                try:
                    ck.judge('ctor', cls(v, u), x, c, u)
                    ck.judge('ctor-generic', Q.Quantity(v, u), x, c, u)
                    if kind == 's':
                        ck.judge('ctor-text', Q.Quantity(f"{v} {s}"), x, c, u)
                        ck.judge('ctor-text', cls(f"{v} {s}"), x, c, u)
                    elif kind != 'S':
                        ck.judge('num*unit', v * u, x, c, u)
                        ck.judge('unit*num', u * v, x, c, u)
                except Exception as exc:
                    st.violation(f'C05:ctor:raises:{kind}',
                                 f"{c}: {type(exc).__name__}: {exc}", c)
            sx = ck.stored(u, x)
            q = cls(F(x), u)
            c = dict(base, op='unary', unit=s, x=str(x))
            ck.judge('neg', -q, -sx, c, u)
            ck.judge('abs', abs(q), abs(sx), c, u)
            if light and x not in xs[:8]:
                continue
            for k in KS:
                kk, vk = O.dec(k), O.val(k)
                c = dict(base, op='scale', unit=s, x=str(x), k=k)
                ck.judge('q*k', q * kk, sx * vk, c, u)
                ck.judge('k*q', kk * q, sx * vk, c, u)
                ck.judge('q/k', q / kk, sx / vk, c, u)
            # --- conversion, addition with every other unit of the type
            for s2 in other_syms:
                u2 = w.units[s2]
                if w.um[s2].scale is None:
                    if s2 != s:
                        continue
                    r12 = F(1)
                else:
                    r12 = w.um[s].scale / w.um[s2].scale
                c = dict(base, op='convert', unit=s, x=str(x), to=s2)
                if w.um[s2].scale is not None:
                    ck.judge('convert', q.convert(u2), sx * r12, c, u2)
                for y in (xs[2], xs[5], xs[9]):
                    g2 = ck.grid(u2)
                    y2 = y / g * g2
                    sy = ck.stored(u2, y2)
                    q2 = cls(F(y2), u2)
                    c = dict(base, op='add', unit=s, x=str(x), unit2=s2,
                             y=str(y2))
                    ck.judge('add', q + q2, sx + sy / r12, c, u)
                    ck.judge('sub', q - q2, sx - sy / r12, c, u)
                    ck.judge('sum', Q.sum([q, q2, q2]),
                             ck.stored(u, sx + sy / r12) + sy / r12, c, u)
            # --- quantize with explicit modes, round
            if w.um[s].scale is not None:
                for m2 in ('ROUND_HALF_UP', 'ROUND_FLOOR', 'ROUND_05UP'):
                    for quant in (F(1), F(5, 2)):
                        qq = cls(quant * g * 4, u)
                        sq = ck.stored(u, quant * g * 4)
                        if sq == 0:
                            continue
                        c = dict(base, op='quantize', unit=s, x=str(x),
                                 quant=str(sq), m2=m2)
                        exact = O.round_int(sx / sq, m2) * sq
                        try:
                            ck.judge('quantize',
                                     q.quantize(qq, O.mode_obj(m2)), exact,
                                     c, u)
                        except Exception as exc:
                            st.violation('C05:quantize:raises',
                                         f"{c}: {type(exc).__name__}: {exc}",
                                         c)
            if mode == 'ROUND_HALF_EVEN':
                for n in (0, 1):
                    c = dict(base, op='round', unit=s, x=str(x), n=n)
                    exact = O.round_to(sx, F(10) ** -n, 'ROUND_HALF_EVEN')
                    ck.judge('round', round(q, n), exact, c, u)
            # --- allocate: portions and remainder live on the grid
            if sx != 0:
                c = dict(base, op='allocate', unit=s, x=str(x))
                for disperse in (True, False):
                    portions, rem = q.allocate([1, 2, 4], disperse)
                    for i, p in enumerate(portions):
                        a = O.fr(p.amount)
                        st.evaluations += 1
                        if (a / g).denominator != 1:
                            st.violation('C05:allocate:off-grid',
                                         f"{c}: portion {p}", c)
                    if (O.fr(rem.amount) / g).denominator != 1:
                        st.violation('C05:allocate:off-grid',
                                     f"{c}: remainder {rem}", c)


def explore_near_ties(ck, tname, syms):
    """long factors applied to amounts at / next to the ties of the product
    (solved exactly, see oracle.near_tie_multiples)"""
    w, st = ck.w, ck.st
    cls = w.types[tname]
    base = {'world': ck.world, 'mode': ck.mode}
    for s in syms:
        u = w.units[s]
        g = ck.grid(u)
        for k in LONG_KS:
            kk, vk = O.dec(k), O.val(k)
            for form, fac in (('q*k', vk), ('q/k', 1 / vk)):
                for n in O.near_tie_multiples(fac, g, g)[:3]:
                    for sign in (1, -1):
                        x = sign * n * g
                        q = cls(F(x), u)
                        c = dict(base, op='scale-near-tie', unit=s,
                                 x=str(x), k=k, form=form)
                        st.state((ck.world, tname, s, 'near-tie', k, form,
                                  sign * n), nontrivial=True)
                        if form == 'q*k':
                            ck.judge('q*k:near-tie', q * kk, x * vk, c, u)
                            ck.judge('k*q:near-tie', kk * q, x * vk, c, u)
                        else:
                            ck.judge('q/k:near-tie', q / kk, x / vk, c, u)


def explore_products(ck, pairs, res_tname):
    """cross-type products / quotients whose result type is quantized.
    pairs: list of (op, sym1, sym2)"""
    w, st = ck.w, ck.st
    base = {'world': ck.world, 'mode': ck.mode}
    for op, s1, s2 in pairs:
        u1, u2 = w.units[s1], w.units[s2]
        c1, c2 = u1.qty_cls, u2.qty_cls
        for a in (F(1), F(3, 2), F(-7, 4), F(1, 3), F(1001, 1000), F(1, 16)):
            for b in (F(1), F(1, 2), F(5, 3), F(-1, 8)):
                g1 = ck.grid(u1) if w.tm[w.um[s1].tname].quantum or \
                    w.um[s1].tname == 'Money' else None
                g2 = ck.grid(u2) if w.tm[w.um[s2].tname].quantum or \
                    w.um[s2].tname == 'Money' else None
                sa = O.round_to(a, g1, ck.mode) if g1 else a
                sb = O.round_to(b, g2, ck.mode) if g2 else b
                if op == '/' and sb == 0:
                    continue
                q1, q2 = c1(a, u1), c2(b, u2)
                sign = 1 if op == '*' else -1
                f1, f2 = w.um[s1].ufac, w.um[s2].ufac

                def exact(unit, sa=sa, sb=sb, f1=f1, f2=f2, sign=sign):
                    return sa * sb ** sign * f1 * f2 ** sign / \
                        w.um[unit.symbol].ufac
                for kind in ('qq', 'qu', 'uq'):
                    c = dict(base, op='product', expr=[op, kind, s1, str(a),
                                                      s2, str(b)])
                    try:
                        if kind == 'qq':
                            x, y, e = q1, q2, exact
                        elif kind == 'qu':
                            x, y = q1, u2
                            e = (lambda unit, sa=sa, f1=f1, f2=f2, sign=sign:
                                 sa * f1 * f2 ** sign
                                 / w.um[unit.symbol].ufac)
                        else:
                            x, y = u1, q2
                            e = (lambda unit, sb=sb, f1=f1, f2=f2, sign=sign:
                                 sb ** sign * f1 * f2 ** sign
                                 / w.um[unit.symbol].ufac)
                        res = x * y if op == '*' else x / y
                    except Exception as exc:
                        st.violation('C05:product:raises',
                                     f"{c}: {type(exc).__name__}: {exc}", c)
                        continue
                    st.state((ck.world, 'product', op, kind, s1, s2, a, b),
                             nontrivial=True)
                    ck.judge('product', res, e, c)
                    if res_tname and type(res).__name__ != res_tname:
                        st.violation('C05:product:type',
                                     f"{c}: {type(res).__name__}", c)


def explore_powers(ck, syms, ns):
    w, st = ck.w, ck.st
    base = {'world': ck.world, 'mode': ck.mode}
    for s in syms:
        u = w.units[s]
        cls = u.qty_cls
        tm = w.tm[w.um[s].tname]
        g = ck.grid(u) if tm.quantum else None
        for a in (F(1), F(3, 2), F(100), F(-7, 3), F(1, 10), F(25, 2)):
            sa = O.round_to(a, g, ck.mode) if g else a
            q = cls(a, u)
            for n in ns:
                if sa == 0 and n < 0:
                    continue
                rt = None
                rdim = O.dim_pow(tm.dim, n)
                for t in w.tm.values():
                    if t.dim == rdim:
                        rt = t
                if rt is None or rt.quantum is None:
                    continue

                def exact(unit, sa=sa, n=n, s=s):
                    return (sa * w.um[s].ufac) ** n / w.um[unit.symbol].ufac
                c = dict(base, op='pow', unit=s, a=str(a), n=n)
                try:
                    st.state((ck.world, 'pow', s, a, n), nontrivial=True)
                    ck.judge('pow', q ** n, exact, c)
                    if n == -1:
                        ck.judge('k/q', F(5, 2) / q,
                                 lambda unit, e=exact: F(5, 2) * e(unit), c)
                        ck.judge('k/u', F(5, 2) / u,
                                 lambda unit, s=s: F(5, 2) / w.um[s].ufac
                                 / w.um[unit.symbol].ufac, c)
                        ck.judge('u**n', u ** n,
                                 lambda unit, s=s: 1 / w.um[s].ufac
                                 / w.um[unit.symbol].ufac, c)
                    else:
                        ck.judge('u**n', u ** n,
                                 lambda unit, s=s, n=n: w.um[s].ufac ** n
                                 / w.um[unit.symbol].ufac, c)
                except Exception as exc:
                    st.violation('C05:pow:raises',
                                 f"{c}: {type(exc).__name__}: {exc}", c)


RATES = {'EUR': F(1), 'CLF': F(1, 25), 'JPY': F(125), 'TND': F(16, 5)}


def explore_converted(ck):
    """Money with an active converter (1 EUR = 0.04 CLF = 125 JPY = 3.2 TND,
    all cross rates exact): sums, differences and conversions across
    currencies are the exact result rounded once."""
    from datetime import date
    from quantity.money import Money, MoneyConverter
    w, st = ck.w, ck.st
    conv = MoneyConverter(w.units['EUR'], lambda: date(2020, 3, 15))
    conv.update(None, [(w.units[c], r, 1) for c, r in RATES.items()
                       if c != 'EUR'])
    base = {'world': ck.world, 'mode': ck.mode, 'converter': True}
    with conv:
        for c1 in RATES:
            u1 = w.units[c1]
            g1 = ck.grid(u1)
            for c2 in RATES:
                if c1 == c2:
                    continue
                u2 = w.units[c2]
                g2 = ck.grid(u2)
                r21 = RATES[c1] / RATES[c2]       # 1 c2 = r21 c1
                for t1 in (F(0), F(1), F(-3), F(7)):
                    for t2 in (F(1), F(3), F(-5), F(11), F(250)):
                        x, y = t1 * g1, t2 * g2
                        q1, q2 = Money(x, u1), Money(y, u2)
                        c = dict(base, op='add', unit=c1, x=str(x),
                                 unit2=c2, y=str(y))
                        st.state((ck.world, 'conv', c1, c2, t1, t2),
                                 nontrivial=True)
                        try:
                            ck.judge('add', q1 + q2, x + y * r21, c, u1)
                            ck.judge('sub', q1 - q2, x - y * r21, c, u1)
                            c = dict(c, op='convert')
                            ck.judge('convert', q2.convert(u1), y * r21, c,
                                     u1)
                            ck.judge('ctor-text-convert',
                                     Money(f"{q2.amount} {c2}", u1), y * r21,
                                     c, u1)
                            # text whose amount is NOT a multiple of the
                            # named currency's fraction, with another target
                            # currency: one rounding, in the target currency
                            yt = y + g2 * F(2, 5)
                            c = dict(c, op='ctor-text-convert-offgrid',
                                     y=str(yt))
                            ck.judge('ctor-text-convert-offgrid',
                                     Money(f"{O.dec_str(yt)} {c2}", u1),
                                     yt * r21, c, u1)
                            c = dict(c, y=str(y))
                            # exchange-rate application (no converter
                            # involved): 1 c2 = r21 c1
                            from quantity.money import ExchangeRate
                            rate = ExchangeRate(u2, 1, u1, r21)
                            rv = O.fr(rate.rate)
                            c = dict(c, op='rate')
                            ck.judge('rate*m', rate * q2, y * rv, c, u1)
                            ck.judge('m*rate', q2 * rate, y * rv, c, u1)
                            ck.judge('m/rate', q1 / rate, x / rv, c, u2)
                        except Exception as exc:
                            st.violation('C05:converted:raises',
                                         f"{c}: {type(exc).__name__}: {exc}",
                                         c)


# ---------------------------------------------------------------------------
# worlds

CURRENCIES = ['JPY', 'EUR', 'TND', 'CLF']      # 0, 2, 3, 4 minor units


def world_dv():
    return World(catalogue=True)


def world_money():
    from quantity.money import Money
    w = World(catalogue=True)
    w.sf = {}
    functional, _ = O.iso_table()
    for code in CURRENCIES:
        w.must(['cur', code])
        (minor,) = functional[code]['minor']
        w.sf[code] = F(1, 10 ** minor)
    w.must(['newcur', 'XNK', None, 'D:0.05'])
    w.sf['XNK'] = F(1, 20)
    w.must(['dtype', 'PPM', [['Money', 1], ['Mass', -1]], None, None])
    return w


TGRID_THOROUGH = [F(2, 3), F(5, 3), F(-7, 3), F(10 ** 12) + F(1, 4),
                  F(-10 ** 6) - F(1, 2), F(25, 2), F(-25, 2), F(999, 1000),
                  F(1, 1000), F(-1, 1000), F(15, 2), F(-15, 2)]


def run_mode_sequence(p):
    """All default rounding modes one after the other in ONE process (in two
    orders): results memoised under an earlier mode must not leak."""
    name, order = p[0], p[1]
    st = Stats()
    modes = list(O.MODES)
    if order == 'reversed':
        modes.reverse()
    if name == 'datavolume':
        w = world_dv()
    else:
        w, err = build_world(USER)
        if err is not None:
            from ..world import SetupRejected
            raise SetupRejected(*err)
    for mode in modes:
        O.set_mode(mode)
        ck = Ck(w, st, mode, name + ':mode-sequence-' + order)
        if name == 'datavolume':
            dt = w.tm['DataThroughput'].units
            du = w.tm['Duration'].units
            explore_products(ck, [('*', a, b) for a in dt[3:5] for b in du[:3]]
                             + [('*', b, a) for a in dt[3:5]
                                for b in du[:3]], 'DataVolume')
            explore_near_ties(ck, 'DataVolume', ['kB'])
        else:
            explore_powers(ck, ['p0', 'p7', 'pt', 'pi0', 'pi7'],
                           [2, -1, -2])
            explore_products(ck, [('*', 'p7', 'pt'), ('*', 'pt', 'pt'),
                                  ('*', 'p0', 'l1'), ('*', 'p7/l1', 'l0'),
                                  ('/', 'pt²', 'p7')], None)
    for sig in list(st.viol):
        st.viol[sig + ':mode-sequence'] = st.viol.pop(sig)
    return st


def run_world(p):
    global TGRID
    if p[1] in ('forward', 'reversed'):
        return run_mode_sequence(p)
    name, mode = p[0], p[1]
    thorough = len(p) > 2 and p[2] == 'thorough'
    if thorough:
        TGRID = TGRID + [t for t in TGRID_THOROUGH if t not in TGRID]
    st = Stats()
    O.set_mode(mode)
    if name == 'datavolume':
        w = world_dv()
        ck = Ck(w, st, mode, name)
        syms = w.tm['DataVolume'].units
        if thorough:
            explore_type(ck, 'DataVolume', syms, syms, light=False)
        else:
            explore_type(ck, 'DataVolume', syms, syms[:1] + syms[5:7]
                         + syms[9:11] + syms[-1:], light=True)
        pairs = []
        dt = w.tm['DataThroughput'].units
        du = w.tm['Duration'].units
        for a in (dt if thorough else dt[:1] + dt[3:5] + dt[9:12]):
            for b in du:
                pairs += [('*', a, b), ('*', b, a)]
        explore_products(ck, pairs, 'DataVolume')
        explore_near_ties(ck, 'DataVolume', syms[:2] + syms[9:10])
    elif name == 'money':
        w = world_money()
        from quantity.money import Money
        w.tm['Money'].quantum = None
        ck = Ck(w, st, mode, name)
        syms = CURRENCIES + ['XNK']
        explore_type(ck, 'Money', syms, syms)
        explore_near_ties(ck, 'Money', syms)
        # price x mass -> money
        w.must(['unit', 'PPM', 'EUR/kg', ['derive', ['EUR', 'kg']]])
        w.must(['unit', 'PPM', 'JPY/kg', ['derive', ['JPY', 'kg']]])
        explore_products(ck, [('*', 'EUR/kg', 'g'), ('*', 'g', 'EUR/kg'),
                              ('*', 'JPY/kg', 'lb'), ('*', 'oz', 'JPY/kg'),
                              ('*', 'EUR/kg', 'kg')], 'Money')
        explore_converted(ck)
    else:
        w, err = build_world(USER)
        if err is not None:
            st.violation('C05:user-declaration-rejected', str(err),
                         {'world': name})
            return st
        ck = Ck(w, st, mode, name)
        explore_type(ck, 'P', ['p0', 'p7', 'pt'], ['p0', 'p7', 'pt'])
        explore_near_ties(ck, 'P', ['p0', 'p7', 'pt'])
        explore_type(ck, 'PQ', ['q0', 'q7', 'qt', 'qn'],
                     ['q0', 'q7', 'qt', 'qn'], light=True)
        explore_type(ck, 'P2', w.tm['P2'].units, w.tm['P2'].units)
        explore_type(ck, 'PI', w.tm['PI'].units, w.tm['PI'].units)
        explore_powers(ck, ['p0', 'p7', 'pt', 'pi0', 'pi7'], [2, -1, -2])
        explore_products(ck, [('*', 'p7', 'pt'), ('*', 'pt', 'pt'),
                              ('*', 'p0', 'l1'), ('*', 'l1', 'p7'),
                              ('*', 'p7/l1', 'l0'), ('*', 'l1', 'p7/l1'),
                              ('/', 'pt²', 'p7'), ('/', 'p7²', 'pt')],
                         None)
    return st


def replay(case):
    """A C05 case names the world, the mode and the operation; re-running the
    whole (world, mode) partition and filtering is the simplest faithful
    replay (a partition takes a few seconds)."""
    wname = case['world']
    if ':mode-sequence-' in wname:
        wn, _, order = wname.partition(':mode-sequence-')
        st = run_world((wn, order, case.get('tier', 'quick')))
        return [(sig, ent[1]) for sig, ent in st.viol.items()]
    st = run_world((case['world'], case['mode'], case.get('tier', 'quick')))
    out = []
    for sig, (n, msg, cases) in st.viol.items():
        for c in cases:
            if c['case'] == case:
                out.append((sig, c['msg']))
        if not any(c['case'] == case for c in cases):
            # same signature, other sample: still the same defect class
            if case.get('op') and f":{case['op']}" in sig:
                out.append((sig, msg))
    return out


def run(tier, seed):
    worlds = ['datavolume', 'money', 'user']
    parts = [(wn, m, tier) for wn in worlds for m in O.MODES]
    parts += [(wn, order, tier) for wn in ('datavolume', 'user')
              for order in ('forward', 'reversed')]
    total = pmap(run_world, parts, fresh=True)
    if tier == 'thorough':
        for sig, ent in total.viol.items():
            for c in ent[2]:
                c['case']['tier'] = 'thorough'

    total.paths = total.transitions
    total.sample({'world': 'user', 'mode': 'ROUND_HALF_DOWN', 'op': 'add',
                  'unit': 'p7', 'x': '1/42', 'unit2': 'pt', 'y': '5/2',
                  'meaning': 'amount half a quantum (1/21 p7) plus 3/4 '
                             'quantum of pt'})
    total.sample({'world': 'datavolume', 'mode': 'ROUND_05UP', 'op':
                  'product', 'expr': ['*', 'qq', 'kb/s', '3/2', 'min',
                                      '5/3']})
    total.extra['configurations'] = len(parts)
    return total, dict(
        rule="3 worlds x 8 default modes (each in a fresh fork); per unit 19 "
             "multiples t of that unit's quantum (integers, halves, quarters"
             ", thirds, negative, 1e9+1/2) through: constructor in 6 numeric "
             "kinds via both factories and text, number*unit, neg, abs, *k, "
             "/k, convert, +, -, sum, quantize (3 explicit modes), round, "
             "allocate, powers, k/q, cross-type products. distinct state = "
             "(world, type, unit, t); non-trivial = t not integral",
        level_text="bounded exhaustive exploration of the configuration "
                   "space (modes x worlds) against a round-once oracle",
        assumptions=["round(q, n) only under ROUND_HALF_EVEN",
                     "the mode of every execution is set by the harness and "
                     "each (world, mode) runs in its own fork"])
