"""C06 Allocation conserves the total and deviates by less than one quantum.

Engine V: quantities (quantized and not) x all ratio lists of bounded length
over a ratio alphabet (ints, Fraction, Decimal, quantities in mixed units) x
disperse flag x default rounding modes; every (world, mode) in a fresh fork.
"""
import itertools
from fractions import Fraction as F

from .. import oracle as O
from ..core import Stats, guarded, pmap
from ..world import World
from .c01 import build_world

RATIOS = ['i:1', 'i:2', 'i:3', 'i:7', 'F:1/3', 'D:0.5']
QRATIOS = [['kg', 'i:1'], ['g', 'i:500'], ['lb', 'i:1'], ['kg', 'D:0.25']]
TS = [F(1), F(2), F(7), F(10), F(100), F(1001), F(-1), F(-7), F(-10),
      F(-100),
      # more quanta than a float can count
      F(7 * 10 ** 16 + 1), F(-(2 ** 53 + 3))]
PLAIN = ['i:1', 'i:7', 'D:-2.5', 'D:1.005', 'F:1/3', 'F:-2/7',
         'i:1000000000000', 'D:0.000001', 'i:-1', 'D:0.5']
USER = [['type', 'P', 'p0', 'F:1/3'],
        ['unit', 'P', 'p7', ['scaled', 'i:7', 'p0']],
        ['unit', 'P', 'pt', ['term', [['D:0.1', 1], ['p0', 1]]]],
        ['type', 'PQ', 'q0', 'D:0.05'],   # same unit scales, other quantum
        ['unit', 'PQ', 'q7', ['scaled', 'i:7', 'q0']],
        ['unit', 'PQ', 'qt', ['term', [['D:0.1', 1], ['q0', 1]]]],
        ['unit', 'PQ', 'qn', ['scaled', 'i:-2', 'q0']]]   # negative scale


def ratio_lists(alphabet, maxlen):
    for n in range(1, maxlen + 1):
        yield from itertools.product(alphabet, repeat=n)


def grid(w, sym):
    um = w.um[sym]
    if um.tname == 'Money':
        return w.sf[sym]
    tm = w.tm[um.tname]
    if tm.quantum is None:
        return None
    return tm.quantum / um.scale


@guarded('C06')
def run_alloc(w, sym, amount, ratios, disperse, mode, st=None, sym2=None):
    """ratios: list of number codes, or of [unit symbol, number code]"""
    Q = w.q
    u = w.units[sym]
    cls = u.qty_cls
    g = grid(w, sym)
    x = F(amount)
    q = cls(x, u)
    if O.fr(q.amount) != x:
        return []                 # not on the grid: not a storable quantity
    if isinstance(ratios[0], (list, tuple)):
        robj = [w.units[s].qty_cls(O.dec(a), w.units[s]) for s, a in ratios]
        rval = [O.val(a) * w.um[s].scale for s, a in ratios]
    else:
        robj = [O.dec(r) for r in ratios]
        rval = [O.val(r) for r in ratios]
    total = sum(rval)
    shares = [x * r / total for r in rval]
    h0 = hash(q)
    case = {'unit': sym, 'amount': str(x), 'ratios': list(ratios),
            'disperse': disperse, 'mode': mode}
    try:
        # dispersing the rounding error is the documented default: asked for
        # by leaving the flag out (every other ratio list also by keyword)
        if disperse and len(ratios) % 2:
            portions, rem = q.allocate(robj)
        elif disperse:
            portions, rem = q.allocate(robj, disperse_rounding_error=True)
        else:
            portions, rem = q.allocate(robj, disperse)
    except Exception as exc:
        return [('C06:raises', f"{case}: {type(exc).__name__}: {exc}")]
    if st is not None:
        st.transitions += 1
    out = []
    n = len(ratios)
    tag = 'C06:quantized' if g else 'C06:plain'
    if O.fr(q.amount) != x or q.unit is not u or hash(q) != h0:
        out.append(('C06:receiver-changed', f"{case}: receiver is now {q!r}"))
    if len(portions) != n:
        return out + [(tag + ':count', f"{case}: {len(portions)} portions")]
    for p in list(portions) + [rem]:
        if type(p) is not cls or p.unit is not u:
            return out + [(tag + ':type', f"{case}: {p!r} is not a "
                           f"{cls.__name__} in {sym}")]
        if isinstance(p.amount, float) or not O.is_exact(p.amount):
            return out + [(tag + ':inexact', f"{case}: {p!r}")]
    pa = [O.fr(p.amount) for p in portions]
    ra = O.fr(rem.amount)
    if st is not None:
        st.evaluations += 3 + 2 * n
    if sum(pa) + ra != x:
        out.append((tag + ':conservation',
                    f"{case}: portions {pa} + remainder {ra} = "
                    f"{sum(pa) + ra} != {x}"))
    # the library's own arithmetic must agree
    try:
        if not (Q.sum(portions) + rem == q):
            out.append((tag + ':conservation-by-operators',
                        f"{case}: sum(portions) + remainder != original"))
    except Exception as exc:
        out.append((tag + ':conservation-by-operators',
                    f"{case}: {type(exc).__name__}"))
    if g is None:
        if pa != shares or ra != 0:
            out.append((tag + ':share', f"{case}: portions {pa}, exact "
                        f"shares {shares}, remainder {ra}"))
    else:
        for i, (a, s) in enumerate(zip(pa, shares)):
            if (a / g).denominator != 1:
                out.append((tag + ':off-grid', f"{case}: portion {i} = {a} "
                            f"is not a multiple of {g}"))
            elif abs(a - s) >= abs(g):
                out.append((tag + ':deviation',
                            f"{case}: portion {i} = {a}, exact share {s}, "
                            f"deviation {abs(a - s) / abs(g)} quanta"))
        if (ra / g).denominator != 1:
            out.append((tag + ':off-grid', f"{case}: remainder {ra}"))
        if disperse:
            if ra != 0:
                out.append((tag + ':remainder', f"{case}: remainder {ra} "
                            "although the error is dispersed"))
        else:
            bound = n * abs(g) / 2 if mode in O.HALF_MODES else n * abs(g)
            if (abs(ra) > bound) if mode in O.HALF_MODES else \
                    (abs(ra) >= bound):
                out.append((tag + ':remainder', f"{case}: |remainder| "
                            f"{abs(ra)} exceeds {bound}"))
            # undispersed portions are the shares rounded once
            want = [O.round_to(s, g, mode) for s in shares]
            if pa != want:
                out.append((tag + ':rounded-share',
                            f"{case}: portions {pa}, shares rounded once "
                            f"{want}"))
    # portions must behave like ordinary quantities of their amount
    if sym2 is not None and w.um[sym].scale is not None:
        u2 = w.units[sym2]
        for i, p in enumerate(portions):
            twin = cls(pa[i], u)
            t2 = twin.convert(u2)
            try:
                ok = (p == t2) is (twin == t2) and (p < t2) is (twin < t2) \
                    and (p >= t2) is (twin >= t2) and \
                    O.fr(p.convert(u2).amount) == O.fr(t2.amount) and \
                    hash(p) == hash(twin)
            except Exception as exc:
                ok = False
            if st is not None:
                st.evaluations += 1
            if not ok:
                out.append((tag + ':portion-incoherent',
                            f"{case}: portion {i} ({p!r}) does not compare / "
                            f"convert like {twin!r} against {t2!r}"))
    return out


def quantities(w, wname):
    """[(unit symbol, second unit, [amounts])]"""
    if wname == 'plain':
        out = []
        for t in ('Length', 'Mass'):
            syms = w.tm[t].units
            for s in (syms[0], syms[3], syms[-1]):
                out.append((s, syms[1], [O.val(a) for a in PLAIN]))
        return out
    if wname == 'datavolume':
        syms = w.tm['DataVolume'].units
        return [(s, 'kB', [t * grid(w, s) for t in TS])
                for s in ('B', 'b', 'KiB')]
    if wname == 'money':
        return [(s, None, [t * grid(w, s) for t in TS])
                for s in ('EUR', 'JPY', 'TND')]
    return [(s, r, [t * grid(w, s) for t in TS])
            for s, r in (('p0', 'p0'), ('p7', 'p0'), ('q7', 'q0'),
                         ('pt', 'p0'), ('qt', 'q0'), ('q0', 'q0'),
                         ('qn', 'q7'))]


def make_world(wname):
    if wname in ('plain', 'datavolume'):
        return World(catalogue=True)
    if wname == 'money':
        w = World(catalogue=True)
        w.sf = {}
        functional, _ = O.iso_table()
        for code in ('EUR', 'JPY', 'TND'):
            w.must(['cur', code])
            (minor,) = functional[code]['minor']
            w.sf[code] = F(1, 10 ** minor)
        return w
    w, err = build_world(USER)
    if err is not None:
        from ..world import SetupRejected
        raise SetupRejected(*err)
    return w


def part(p, maxlen, qmaxlen):
    wname, mode = p
    st = Stats()
    O.set_mode(mode)
    w = make_world(wname)
    lists = [list(r) for r in ratio_lists(RATIOS, maxlen)]
    # a few longer lists (many equal shares => large undispersed remainders)
    lists += [['i:1'] * 4, ['i:1'] * 5, ['i:1'] * 8, ['i:3'] * 7,
              ['i:3', 'i:3', 'i:3', 'i:1', 'i:1'],
              ['F:1/3', 'F:1/3', 'F:1/3', 'F:1/3', 'D:0.5', 'D:0.5'],
              ['i:7', 'i:1', 'i:1', 'i:1', 'i:1', 'i:1', 'i:1']]
    if 'kg' in w.units:
        lists += [[list(x) for x in r]
                  for r in ratio_lists(QRATIOS, qmaxlen)]
    for sym, sym2, amounts in quantities(w, wname):
        for x in amounts:
            for ratios in lists:
                for disperse in (True, False):
                    st.paths += 1
                    res = run_alloc(w, sym, x, ratios, disperse, mode, st,
                                    sym2)
                    key = (wname, sym, x, tuple(map(str, ratios)))
                    st.state(key, nontrivial=len(ratios) > 1)
                    for sig, msg in res:
                        st.violation(sig, msg, {
                            'world': wname, 'unit': sym, 'amount': str(x),
                            'ratios': ratios, 'disperse': disperse,
                            'mode': mode, 'unit2': sym2})
    return st


def part_seq(p):
    """all modes one after the other in ONE process (both orders): a result
    memoised under an earlier default rounding mode must not be served"""
    wname, order = p
    st = Stats()
    modes = list(O.MODES) if order == 'forward' else list(reversed(O.MODES))
    w = make_world(wname)
    lists = [[r] for r in RATIOS] + [['i:1', 'i:1'], ['i:1', 'i:2'],
                                     ['i:1', 'i:1', 'i:1'], ['i:3', 'i:7'],
                                     ['i:1'] * 4, ['i:3'] * 7,
                                     ['F:1/3', 'F:1/3', 'D:0.5']]
    for mode in modes:
        O.set_mode(mode)
        for sym, sym2, amounts in quantities(w, wname):
            for x in amounts:
                for ratios in lists:
                    for disperse in (True, False):
                        st.paths += 1
                        res = run_alloc(w, sym, x, ratios, disperse, mode, st,
                                        sym2)
                        st.state((wname, sym, x, tuple(ratios), mode, 'seq'),
                                 nontrivial=len(ratios) > 1)
                        for sig, msg in res:
                            st.violation(sig + ':mode-sequence', msg, {
                                'world': wname, 'unit': sym,
                                'amount': str(x), 'ratios': ratios,
                                'disperse': disperse, 'mode': mode,
                                'unit2': sym2,
                                'after_modes': modes[:modes.index(mode)]})
    return st


def replay(case):
    if case.get('after_modes'):
        # the whole sequence is the case: replay the sequence part
        order = 'forward' if case['after_modes'][0] == O.MODES[0] \
            else 'reversed'
        st = part_seq((case['world'], order))
        return [(sig, msg) for sig, (n, msg, cs) in st.viol.items()]
    O.set_mode(case['mode'])
    w = make_world(case['world'])
    return run_alloc(w, case['unit'], F(case['amount']), case['ratios'],
                     case['disperse'], case['mode'], None, case.get('unit2'))


def run(tier, seed):
    worlds = ['plain', 'datavolume', 'money', 'user']
    if tier == 'thorough':
        modes, maxlen, qmaxlen = O.MODES, 4, 3
    else:
        k = seed % 5
        others = [m for m in O.MODES if m != 'ROUND_HALF_EVEN']
        modes = ['ROUND_HALF_EVEN', others[k], others[(k + 3) % 7]]
        maxlen, qmaxlen = 3, 2
    parts = [(wn, m) for wn in worlds for m in modes
             if not (wn == 'plain' and m != 'ROUND_HALF_EVEN')]
    total = pmap(part, parts, (maxlen, qmaxlen), fresh=True)
    total.merge(pmap(part_seq, [(wn, o) for wn in worlds[1:]
                                for o in ('forward', 'reversed')],
                     fresh=True))
    total.sample({'world': 'money', 'unit': 'EUR', 'amount': '-1/10',
                  'ratios': ['i:1', 'i:1', 'i:7'], 'disperse': True,
                  'mode': modes[1]})
    total.sample({'world': 'plain', 'unit': 'mi', 'amount': '1/3',
                  'ratios': [['g', 'i:500'], ['kg', 'i:1']],
                  'disperse': True, 'mode': 'ROUND_HALF_EVEN'})
    total.extra['modes'] = modes
    total.extra['max_ratio_list_length'] = maxlen
    return total, dict(
        rule=f"4 worlds x {len(modes)} modes; per world 3 units x 12 amounts (up to 7e16 quanta) "
             f"(multiples of the unit's quantum, negative too) x all ratio "
             f"lists of length 1..{maxlen} over {{1,2,3,7,1/3,0.5}} plus "
             f"quantity-ratio lists of length 1..{qmaxlen} over 4 masses in "
             "mixed units x disperse flag; plus, per quantized world, all 8 "
             "modes one after the other in one process (both orders) over a "
             "reduced ratio alphabet. distinct state = (world, unit, "
             "amount, ratio list); non-trivial = more than one ratio",
        level_text="bounded exhaustive exploration; conservation, "
                   "immutability, grid and deviation invariants evaluated on "
                   "every execution",
        assumptions=["ratios are positive ints, Fractions, Decimals or "
                     "quantities of one linear type (DESIGN interpretation "
                     "choices)"])
