"""C07 Term algebra is an exact commutative group with a canonical form.

Engine V: element universe owned by the harness (base, derived, mutually
convertible, nested) plus real catalogue units; all item sequences up to a
length bound; all pairs of short terms; denotational reference model
(Fraction factor, exponent vector over base elements).
"""
import itertools
from fractions import Fraction as F

from .. import oracle as O
from ..core import Stats, guarded, pmap, h64


# ---------------------------------------------------------------------------
# the harness's own elements

class E:
    """Non-numeric term element (implements the NonNumTermElem protocol)."""

    def __init__(self, name, group, key, defn=None, scale=None):
        self.name, self.group, self.key = name, group, key
        self.defn = defn            # [(E | number, exp)] or None
        self.scale = scale          # relative to the group's base element

    def is_base_elem(self):
        return self.defn is None

    @property
    def definition(self):
        from quantity.term import Term
        if self.defn is None:
            return Term(((self, 1),))
        return Term(self.defn)

    @property
    def normalized_definition(self):
        return self.definition.normalized()

    def norm_sort_key(self):
        return self.key

    def _get_factor(self, other):
        if isinstance(other, E) and other.group == self.group and \
                self.scale is not None and other.scale is not None:
            return F(self.scale) / F(other.scale)
        raise TypeError("not convertible")

    def __repr__(self):
        return self.name

    __str__ = __repr__


class EV(E):
    """Element with value-based equality, like the units of a quantity type
    with reference unit: elements of one group with the same scale are equal
    (and hash equal) without being identical."""

    def __eq__(self, other):
        if isinstance(other, E):
            return self is other or (
                self.group == other.group and self.scale is not None
                and self.scale == other.scale)
        return NotImplemented

    def __hash__(self):
        return hash((self.group, self.scale))


def universe():
    from decimalfp import Decimal
    a = EV('a', 'A', 1, None, 1)
    b = E('b', 'B', 2)
    c = E('c', 'C', 3)
    d = EV('d', 'A', 1, [(Decimal(10), 1), (a, 1)], 10)
    d2 = E('d2', 'A', 1, [(Decimal(100), 1), (a, 1)], 100)
    e = E('e', 'E', 4, [(a, 1), (b, -1)])
    f = E('f', 'F', 5, [(Decimal(2), 1), (e, 2), (c, 1)])
    g = E('g', 'E', 4, [(F(1, 3), 1), (e, 1)])
    # g and e are convertible (same group) with factor 1/3
    e.scale, g.scale = 1, F(1, 3)
    # two base elements of ONE group that are not convertible (like the
    # units of a quantity type without reference unit, e.g. K and degC)
    n1 = E('n1', 'N', 6)
    n2 = E('n2', 'N', 6)
    # a derived element that *equals* its base element (scale-1 alias, like
    # Length.new_unit('x', define_as=1 * METRE)) and one that equals 'd'
    a1 = EV('a1', 'A', 1, [(a, 1)], 1)
    d1 = EV('d1', 'A', 1, [(Decimal(5), 1), (a, 1), (Decimal(2), 1)], 10)
    return {x.name: x for x in (a, b, c, d, d2, e, f, g, n1, n2, a1, d1)}


U = None
UNITS = ['m', 'km', 's', 'h', 'N', 'kWh', 'J', 'kg', 'in', 'K', '°C',
         'm_al', 'km_al']
# user-declared units that equal a catalogue unit without being identical
ALIASES = {'m_al': ('m', F(1)), 'km_al': ('km', F(1000))}


def declare_aliases():
    import quantity
    import quantity.predefined as P
    from decimalfp import Decimal
    if 'm_al' not in P.Length:
        P.Length.new_unit('m_al', define_as=1 * P.METRE)
        P.Length.new_unit('km_al', define_as=Decimal(1) * P.KILOMETRE)

BASE_OF = {'M': 'kg', 'L': 'm', 'T': 's', 'D': 'B'}


def elem(code):
    """item element from its JSON spelling"""
    global U
    if U is None:
        U = universe()
    if code.startswith('u:'):
        import quantity
        import quantity.predefined   # noqa
        declare_aliases()
        return quantity.Unit(code[2:])
    if len(code) > 1 and code[1] == ':':
        return O.dec(code)
    return U[code]


def den_elem(code):
    """denotation of an element: (factor, {base: exp})"""
    global U
    if U is None:
        U = universe()
    if code.startswith('u:') and code[2:] in ALIASES:
        return ALIASES[code[2:]][1], {'m': 1}
    if code.startswith('u:'):
        t, scale = O.UNIT_REF[code[2:]]
        if scale is None:           # temperature scales: own base element
            return F(1), {code[2:]: 1}
        dim = O.CATALOGUE[t][0]
        return F(scale), {BASE_OF[k]: v for k, v in dim}
    if len(code) > 1 and code[1] == ':':
        return O.val(code), {}
    return den_E(U[code])


def den_E(x):
    if x.defn is None:
        return F(1), {x.name: 1}
    fac, vec = F(1), {}
    for el, exp in x.defn:
        if isinstance(el, E):
            f2, v2 = den_E(el)
        else:
            f2, v2 = O.fr(el), {}
        fac *= f2 ** exp
        for k, v in v2.items():
            vec[k] = vec.get(k, 0) + v * exp
    return fac, {k: v for k, v in vec.items() if v}


def den_items(items):
    fac, vec = F(1), {}
    for code, exp in items:
        f2, v2 = den_elem(code)
        if f2 == 0 and exp < 0:
            raise ZeroDivisionError
        fac *= f2 ** exp
        for k, v in v2.items():
            vec[k] = vec.get(k, 0) + v * exp
    return fac, tuple(sorted((k, v) for k, v in vec.items() if v))


def den_term(t):
    """denotation of a real Term, read from its items"""
    fac, vec = F(1), {}
    for el, exp in t.items:
        if isinstance(el, float) or isinstance(exp, float):
            raise TypeError("float in term")
        if isinstance(el, E):
            f2, v2 = den_E(el)
        elif hasattr(el, 'symbol'):
            f2, v2 = den_elem('u:' + el.symbol)
        else:
            f2, v2 = O.fr(el), {}
        fac *= f2 ** exp
        for k, v in v2.items():
            vec[k] = vec.get(k, 0) + v * exp
    return fac, tuple(sorted((k, v) for k, v in vec.items() if v))


def mk(items):
    from quantity.term import Term
    return Term([(elem(c), x) for c, x in items])


def has_float(t):
    for el, exp in t.items:
        if isinstance(el, float) or isinstance(exp, float):
            return True
    ne = t.num_elem
    if isinstance(ne, float):
        return True
    num, rest = t.split()
    return isinstance(num, float)


def check_normal_form(t, what):
    """structure of a normalised term"""
    from numbers import Rational
    from quantity.term import Term
    out = []
    n = t.normalized()
    items = n.items
    nums = [i for i, (el, x) in enumerate(items) if isinstance(el, Rational)]
    if len(nums) > 1 or (nums and (nums[0] != 0 or items[0][1] != 1)):
        out.append(('C07:normal-form:numeric', f"{what}: normal form "
                    f"{items!r} has numeric items at {nums}"))
    if nums and items[0][0] == 1:
        out.append(('C07:normal-form:numeric-one', f"{what}: normal form "
                    f"{items!r} carries a factor 1"))
    seen = set()
    keys = []
    for el, x in items[len(nums):]:
        if isinstance(el, Rational):
            continue
        if not el.is_base_elem():
            out.append(('C07:normal-form:derived', f"{what}: normal form "
                        f"{items!r} contains derived element {el}"))
        if id(el) in seen:
            out.append(('C07:normal-form:repeated', f"{what}: {items!r}"))
        seen.add(id(el))
        if x == 0:
            out.append(('C07:normal-form:zero-exp', f"{what}: {items!r}"))
        keys.append(Term.norm_sort_key(el))
    if keys != sorted(keys):
        out.append(('C07:normal-form:order', f"{what}: normal form "
                    f"{items!r} is not in sort-key order {keys}"))
    nn = n.normalized()
    if nn.items != n.items or not n.is_normalized:
        out.append(('C07:normal-form:idempotent', f"{what}: normalising "
                    f"twice gives {nn.items!r} after {n.items!r}"))
    return out


@guarded('C07')
def run_term(items, st=None):
    """constructor, normalized, num_elem, split, hash of one term"""
    try:
        want = den_items(items)
    except ZeroDivisionError:
        return []
    what = f"Term({items})"
    t = mk(items)
    out = []
    if st is not None:
        st.transitions += 4
        st.evaluations += 5
    if has_float(t) or has_float(t.normalized()):
        return [('C07:float', f"{what} = {t!r} (normal form "
                 f"{t.normalized()!r}) contains a float")]
    if den_term(t) != want:
        out.append(('C07:construct:denotation', f"{what} = {t!r} denotes "
                    f"{den_term(t)}, items denote {want}"))
    n = t.normalized()
    if den_term(n) != want:
        out.append(('C07:normalized:denotation', f"{what}.normalized() = "
                    f"{n!r} denotes {den_term(n)}, expected {want}"))
    out += check_normal_form(t, what)
    num, rest = n.split()
    if isinstance(num, float) or O.fr(num) != want[0] or \
            den_term(rest) != (F(1), want[1]):
        out.append(('C07:split', f"{what}.normalized().split() = "
                    f"({num!r}, {rest!r}); denotation {want}"))
    ne = n.num_elem
    if (ne is None and want[0] != 1) or (ne is not None
                                         and O.fr(ne) != want[0]):
        out.append(('C07:num_elem', f"{what}.normalized().num_elem = {ne!r}"
                    f", factor {want[0]}"))
    if not (t == n) or hash(t) != hash(n):
        out.append(('C07:eq:own-normal-form', f"{what} != its normal form "
                    "or hashes differ"))
    return out


@guarded('C07')
def run_pair(i1, i2, st=None, order='eq-first'):
    """==, hash, *, / of two terms; order 'ops-first' evaluates product and
    quotient before anything normalises the operands"""
    try:
        d1, d2 = den_items(i1), den_items(i2)
    except ZeroDivisionError:
        return []
    t1, t2 = mk(i1), mk(i2)
    if order == 'ops-first':
        p0 = t1 * t2
        q0 = t1 / t2 if d2[0] != 0 else None
        pw = (d1[0] * d2[0], tuple(sorted(
            (k, v) for k, v in _vadd(d1[1], d2[1], 1).items() if v)))
        if has_float(p0) or den_term(p0) != pw:
            return [('C07:mul:cold', f"Term({i1}) * Term({i2}) = {p0!r}, "
                     f"expected {pw}")]
    what = f"Term({i1}) vs Term({i2})"
    out = []
    eq = t1 == t2
    if st is not None:
        st.transitions += 4
        st.evaluations += 4
    if eq is not (d1 == d2):
        out.append(('C07:eq', f"{what}: == is {eq}, denotations "
                    f"{d1} / {d2}"))
    if eq is True and hash(t1) != hash(t2):
        out.append(('C07:hash', f"{what}: equal but hashes differ"))
    if (t2 == t1) is not eq:
        out.append(('C07:eq:symmetry', what))
    prod = t1 * t2
    want = (d1[0] * d2[0], tuple(sorted(
        (k, v) for k, v in _vadd(d1[1], d2[1], 1).items() if v)))
    if has_float(prod) or den_term(prod) != want:
        out.append(('C07:mul', f"Term({i1}) * Term({i2}) = {prod!r} denotes "
                    f"{den_term(prod) if not has_float(prod) else 'float'}, "
                    f"expected {want}"))
    if d2[0] != 0:
        quot = t1 / t2
        want = (d1[0] / d2[0], tuple(sorted(
            (k, v) for k, v in _vadd(d1[1], d2[1], -1).items() if v)))
        if has_float(quot) or den_term(quot) != want:
            out.append(('C07:div', f"Term({i1}) / Term({i2}) = {quot!r} "
                        f"denotes "
                        f"{den_term(quot) if not has_float(quot) else 'float'}"
                        f", expected {want}"))
        else:
            out += [(s + ':of-quotient', m)
                    for s, m in check_normal_form(quot, f"({what}) quotient")]
    if not has_float(prod):
        out += [(s + ':of-product', m)
                for s, m in check_normal_form(prod, f"({what}) product")]
        # commutativity
        p2 = t2 * t1
        if not (prod == p2) or hash(prod) != hash(p2):
            out.append(('C07:mul:commutative', what))
    return out


def _vadd(v1, v2, sign):
    acc = dict(v1)
    for k, v in v2:
        acc[k] = acc.get(k, 0) + sign * v
    return acc


@guarded('C07')
def run_unary(items, n, k, st=None, warm=False):
    """** n, reciprocal, k / t, t * k, k * t, t / k; warm: the term's
    memoised normal form and hash exist before the operations"""
    try:
        d = den_items(items)
    except ZeroDivisionError:
        return []
    t = mk(items)
    if warm:
        hash(t)
        t.normalized()
    kk, vk = O.dec(k), O.val(k)
    what = f"Term({items})"
    out = []

    def vmul(v, m):
        return tuple(sorted((a, b * m) for a, b in v if b * m))
    cases = []
    if d[0] != 0 or n > 0:
        cases.append((f'** {n}', lambda: t ** n, (d[0] ** n, vmul(d[1], n))))
    if d[0] != 0:
        cases.append(('reciprocal', lambda: t.reciprocal(),
                      (1 / d[0], vmul(d[1], -1))))
        cases.append((f'{k} /', lambda: kk / t, (vk / d[0], vmul(d[1], -1))))
    cases.append((f'* {k}', lambda: t * kk, (d[0] * vk, d[1])))
    cases.append((f'{k} *', lambda: kk * t, (d[0] * vk, d[1])))
    if vk != 0:
        cases.append((f'/ {k}', lambda: t / kk, (d[0] / vk, d[1])))
    for name, f, want in cases:
        r = f()
        if st is not None:
            st.transitions += 1
            st.evaluations += 1
        opname = name.split()[0] if name[0] in '*/r' else 'k/'
        kkind = k[0] if k in name else ''
        if has_float(r) or has_float(r.normalized()):
            out.append((f'C07:float:{opname}{kkind}', f"{what} {name} = "
                        f"{r!r} contains a float"))
            continue
        if den_term(r) != want or den_term(r.normalized()) != want:
            out.append((f'C07:op:{opname}', f"{what} {name} = {r!r} denotes "
                        f"{den_term(r)}, expected {want}"))
            continue
        nf = check_normal_form(r, f"{what} {name}")
        out += [(sg + f':of-{opname}', m) for sg, m in nf]
        # the result equals (and hashes like) a freshly built term of the
        # same denotation
        twin = mk(items)
        twin = f_twin(twin, name, n, kk)
        if twin is not None and (not (r == twin) or hash(r) != hash(twin)):
            out.append((f'C07:op:{opname}:eq-fresh', f"{what} {name} = {r!r}"
                        f" is not equal to / does not hash like the same "
                        f"operation on a fresh term ({twin!r})"))
    if warm:
        out = [(sg + ':warm', m) for sg, m in out]
    return out


def f_twin(t, name, n, kk):
    if name.startswith('**'):
        return t ** n
    if name == 'reciprocal':
        return t.reciprocal()
    if name.endswith('/'):
        return kk / t
    if name.startswith('* '):
        return t * kk
    if name.endswith('*'):
        return kk * t
    if name.startswith('/ '):
        return t / kk
    return None


@guarded('C07')
def run_assoc(i1, i2, i3):
    t1, t2, t3 = mk(i1), mk(i2), mk(i3)
    l, r = (t1 * t2) * t3, t1 * (t2 * t3)
    if not (l == r) or hash(l) != hash(r) or den_term(l) != den_term(r):
        return [('C07:mul:associative', f"{i1} {i2} {i3}: {l!r} vs {r!r}")]
    return []


# ---------------------------------------------------------------------------

ELEMS = ['a', 'b', 'c', 'd', 'd2', 'e', 'f', 'g', 'n1', 'n2', 'a1', 'd1']
NUMS = ['i:2', 'i:-3', 'i:10', 'D:0.5', 'F:2/3', 'i:-1', 'D:-1.0', 'i:1']
UEL = ['u:' + s for s in UNITS]


def item_alphabet(tier):
    exps = [-2, -1, 0, 1, 2, 3] if tier == 'thorough' else [-2, -1, 0, 1, 2]
    items = [(e, x) for e in ELEMS for x in exps]
    items += [(n, x) for n in NUMS for x in exps]
    return items


def part_terms(first_items, alphabet, maxlen):
    st = Stats()
    for it0 in first_items:
        for n in range(0, maxlen):
            for rest in itertools.product(alphabet, repeat=n):
                items = [list(it0)] + [list(r) for r in rest]
                st.paths += 1
                try:
                    d = den_items(items)
                    st.state(d, nontrivial=len(items) > 1)
                except ZeroDivisionError:
                    pass
                for sig, msg in run_term(items, st):
                    st.violation(sig, msg, {'term': items})
    return st


def part_pairs(firsts, shorts):
    st = Stats()
    for i1 in firsts:
        for i2 in shorts:
            for order in ('eq-first', 'ops-first'):
                st.paths += 1
                for sig, msg in run_pair(i1, i2, st, order):
                    st.violation(sig, msg, {'pair': [i1, i2, None, order]})
    return st


def part_unary(terms, ks):
    st = Stats()
    for items in terms:
        for n in (-2, -1, 0, 1, 2, 3):
            for k in ks:
                for warm in (False, True):
                    st.paths += 1
                    for sig, msg in run_unary(items, n, k, st, warm):
                        st.violation(sig, msg, {'unary': [items, n, k,
                                                          None, warm]})
    return st


def part_assoc(firsts, singles):
    st = Stats()
    for i1 in firsts:
        for i2 in singles:
            for i3 in singles:
                st.paths += 1
                st.transitions += 4
                st.evaluations += 1
                for sig, msg in run_assoc(i1, i2, i3):
                    st.violation(sig, msg, {'assoc': [i1, i2, i3]})
    return st


def replay(case):
    if 'term' in case:
        return run_term(case['term'])
    if 'pair' in case:
        return run_pair(*case['pair'])
    if 'unary' in case:
        return run_unary(*case['unary'])
    return run_assoc(*case['assoc'])


def run(tier, seed):
    import quantity.predefined  # noqa  (real units as elements)
    total = Stats()
    alphabet = item_alphabet(tier)
    declare_aliases()
    red = [(e, x) for e in ['a', 'a1', 'd', 'd2', 'e', 'f', 'g', 'n1', 'n2', 'i:2',
                            'D:0.5', 'F:2/3'] for x in (-1, 1, 2)]
    red += [('b', 0), ('e', 0), ('i:2', 0), ('n1', 0)]   # given zero exponents
    if tier == 'thorough':
        maxlen = 3
        total.merge(pmap(part_terms, [[it] for it in alphabet],
                         (alphabet, 3)))
        # length 4 over a reduced alphabet
        red4 = [it for it in red if it[0] not in ('d2', 'n2')]
        total.merge(pmap(part_terms, [[it] for it in red4], (red4, 4)))
    else:
        # all sequences of length <= 2 over the full alphabet, length 3 over
        # the reduced one
        maxlen = 3
        total.merge(pmap(part_terms, [[it] for it in alphabet],
                         (alphabet, 2)))
        total.merge(pmap(part_terms, [[it] for it in red], (red, 3)))
    # real units
    ualpha = [(u, x) for u in UEL for x in (-1, 1, 2)] + \
        [('i:10', 1), ('F:2/3', -1), ('D:0.5', 2)]
    total.merge(pmap(part_terms, [[it] for it in ualpha], (ualpha, 3)))
    # pairs of short terms over a 20-item sub-alphabet
    k = seed % 3
    sub = [('a', 1), ('a', -1), ('b', 2), ('c', -2), ('d', 1), ('d', -1),
           ('d2', 1), ('e', 1), ('e', -2), ('f', 1), ('g', 1), ('g', -1),
           ('n1', 1), ('n2', 1), ('n2', -1), ('a1', 1), ('d1', 1),
           ('i:2', 1), ('i:2', -1), ('i:2', 2), ('i:10', 1), ('D:0.5', 1),
           ('F:2/3', 1), ('F:2/3', -2), ('i:-3', [1, 2, 3][k])]
    if tier == 'quick':
        drop = {('c', -2), ('i:2', 2), ('F:2/3', -2), ('e', -2), ('d', -1),
                ('a', -1), ('g', -1), ('i:10', 1), ('d1', 1)}
        sub = [x for x in sub if x not in drop]
    shorts = [[list(x)] for x in sub] + \
        [[list(x), list(y)] for x in sub for y in sub]
    shorts.append([])
    # a few longer terms, so that products / quotients with operands of 3 and
    # 4 items are covered as well
    longer = [[('a', 1), ('b', 2), ('c', -1)], [('d', 1), ('e', -1), ('i:2', 1)],
              [('f', 1), ('g', -1), ('a', -2)], [('n1', 1), ('n2', -1), ('b', 1)],
              [('D:0.5', 1), ('d2', 1), ('c', 2)],
              [('a', 1), ('b', 1), ('c', 1), ('e', 1)],
              [('F:2/3', 1), ('g', 2), ('d', -1), ('n2', 1)],
              # a zero factor: the term still has its elements
              [('i:0', 1), ('a', 1)], [('b', 1), ('i:0', 1)],
              [('D:0', 1), ('b', 1)], [('F:0/1', 2), ('g', 1)],
              [('i:0', 1), ('d2', 1), ('c', -1)]]
    shorts += [[list(x) for x in t] for t in longer]
    total.merge(pmap(part_pairs, [shorts[i::32] for i in range(32)],
                     (shorts,)))
    ushorts = [[list(x)] for x in ualpha] + \
        [[list(x), list(y)] for x in ualpha[::2] for y in ualpha[1::2]]
    total.merge(pmap(part_pairs, [ushorts[i::16] for i in range(16)],
                     (ushorts,)))
    ks = list(dict.fromkeys(NUMS + ['i:1', 'i:-1']))
    uterms = shorts[:len(sub)] + shorts[len(sub)::7]
    total.merge(pmap(part_unary, [uterms[i::16] for i in range(16)], (ks,)))
    singles = [[list(x)] for x in sub]
    total.merge(pmap(part_assoc, [singles[i::16] for i in range(16)],
                     (singles,)))
    total.sample({'term': [['f', -1], ['d2', 2], ['F:2/3', -2]],
                  'denotation': str(den_items([['f', -1], ['d2', 2],
                                               ['F:2/3', -2]]))})
    total.sample({'pair': [[['d', 1], ['e', -2]], [['g', 1], ['i:2', -1]]]})
    total.sample({'unary': [[['d2', 1], ['i:2', 2]], -2, 'i:10']})
    total.extra['item_alphabet'] = len(alphabet)
    total.extra['short_terms'] = len(shorts)
    return total, dict(
        rule=f"all item sequences of length <= 2 (thorough 3) over "
             f"{len(alphabet)} items and of length 3 (thorough 4) over a "
             f"{len(red)}-item sub-alphabet (10 elements: base a,b,c; "
             "d=10a, d2=100a convertible; e=a/b; g=e/3 convertible with e; "
             "f=2*e^2*c nested; n1,n2 of one group but not convertible; "
             "numbers 2,-3,10,0.5,2/3; exponents -2..2/3) and over real "
             "catalogue units incl. K and degC; all ordered pairs of "
             f"{len(shorts)} short terms (==, hash, *, /, commutativity, "
             "normal form of results); **n, reciprocal, k/t, t*k, t/k for "
             "every numeric kind; associativity on all triples of single "
             "items. distinct state = denotation; non-trivial = more than "
             "one item",
        level_text="bounded exhaustive enumeration against a denotational "
                   "model (Fraction, exponent vector over base elements)",
        assumptions=["terms longer than the bound are not covered"])
