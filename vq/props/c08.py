"""C08 Money never mixes currencies implicitly and follows ISO 4217.

Complete enumeration of the bundled table (independent regex parse as oracle)
and of ordered pairs of distinct currencies x mixing operators with no
converter active -- also after converters were active earlier (with-blocks
left normally and by exception).  Every partition runs in a fresh fork.
"""
import operator
from fractions import Fraction as F

from .. import oracle as O
from ..core import Stats, guarded, pmap
from ..world import World

AMTS = ['D:12.5', 'i:4', 'D:0.005', 'D:-7.125', 'F:1/3']
MIXOPS = ['+', '-', '/', 'q/u', 'u/u', 'u*u', '<', '<=', '>', '>=', '==',
          '!=', 'convert', 'equiv_amount', 'ctor-str', '*', 'sum', 'u<u',
          'u==u', 'quantize']
QUICK_N = 60


def money():
    from quantity.money import Money
    return Money


@guarded('C08')
def run_table_entry(code, mode='ROUND_HALF_EVEN'):
    """registration twice, name, smallest fraction, rounding -- with `mode`
    as the default rounding mode while the currency is first registered"""
    O.set_mode(mode)
    Money = money()
    functional, _ = O.iso_table()
    ent = functional[code]
    out = []
    c1 = Money.register_currency(code)
    c2 = Money.register_currency(code)
    import quantity
    if c1 is not c2 or quantity.Unit(code) is not c1 or \
            Money.get_unit_by_symbol(code) is not c1:
        out.append(('C08:iso:identity', f"register_currency({code!r}) is "
                    "not idempotent"))
    if c1.name not in ent['names'] or c1.iso_code != code or \
            c1.symbol != code:
        out.append(('C08:iso:name', f"{code}: name {c1.name!r}, table says "
                    f"{ent['names']}"))
    if len(ent['minor']) != 1:
        return out
    (minor,) = ent['minor']
    sf = F(1, 10 ** minor)
    if not O.is_exact(c1.smallest_fraction) or \
            O.fr(c1.smallest_fraction) != sf or O.fr(c1.quantum) != sf:
        out.append(('C08:iso:smallest-fraction',
                    f"{code}: smallest fraction {c1.smallest_fraction!r}, "
                    f"table says 10**-{minor}"))
    for a in AMTS:
        m = Money(O.dec(a), c1)
        want = O.round_to(O.val(a), sf, mode)
        if type(m) is not Money or m.unit is not c1 or m.currency is not c1 \
                or O.fr(m.amount) != want:
            out.append(('C08:iso:rounding', f"Money({a}, {code}) [{mode}] = "
                        f"{m!r}, expected {want}"))
    return out


@guarded('C08')
def run_reject(arg):
    Money = money()
    import quantity
    before = len(Money.units())
    try:
        r = Money.register_currency(arg)
    except ValueError:
        ok = True
    except Exception as exc:
        ok = not isinstance(arg, str)
        if not ok:
            return [('C08:iso:reject', f"register_currency({arg!r}) raised "
                     f"{type(exc).__name__} instead of ValueError")]
    else:
        return [('C08:iso:reject', f"register_currency({arg!r}) returned "
                 f"{r!r}")]
    if len(Money.units()) != before:
        return [('C08:iso:reject-trace', f"rejected code {arg!r} left a "
                 "unit behind")]
    return []


@guarded('C08')
def run_mix(c1, c2, opname, a1, a2):
    """two different currencies, no converter active"""
    Money = money()
    Q = __import__('quantity')
    u1, u2 = Money.get_unit_by_symbol(c1), Money.get_unit_by_symbol(c2)
    m1, m2 = Money(O.dec(a1), u1), Money(O.dec(a2), u2)
    if list(Money.registered_converters()):
        return [('C08:mix:converter-active', "a converter is still "
                 f"registered ({len(list(Money.registered_converters()))})")]
    f = {
        '+': lambda: m1 + m2, '-': lambda: m1 - m2, '/': lambda: m1 / m2,
        'q/u': lambda: m1 / u2, 'u/u': lambda: u1 / u2,
        'u*u': lambda: u1 * u2,
        '<': lambda: m1 < m2, '<=': lambda: m1 <= m2, '>': lambda: m1 > m2,
        '>=': lambda: m1 >= m2, '==': lambda: m1 == m2,
        '!=': lambda: m1 != m2, 'convert': lambda: m1.convert(u2),
        'equiv_amount': lambda: m1.equiv_amount(u2),
        'ctor-str': lambda: Money(f"{m1.amount} {c1}", u2),
        '*': lambda: m1 * m2, 'sum': lambda: Q.sum([m1, m2]),
        'u<u': lambda: u1 < u2, 'u==u': lambda: u1 == u2,
        'quantize': lambda: m1.quantize(m2),
    }[opname]
    what = f"({m1}) {opname} ({m2})"
    try:
        res, err = f(), None
    except Exception as exc:
        res, err = None, exc
    if opname in ('==', 'u==u'):
        ok = res is False
    elif opname == '!=':
        ok = res is True
    elif opname in ('*', 'u*u'):
        ok = isinstance(err, Q.UndefinedResultError)
    elif opname == 'equiv_amount':
        ok = res is None and err is None or \
            isinstance(err, Q.UnitConversionError)
    elif opname == 'quantize':
        ok = isinstance(err, (Q.UnitConversionError, TypeError))
    else:
        ok = isinstance(err, Q.UnitConversionError)
    if ok:
        return []
    return [(f'C08:mix:{opname}', f"{what}: got "
             f"{type(err).__name__ + ': ' + str(err) if err else repr(res)}")]


@guarded('C08')
def run_same(c, a1, a2):
    """operations within one currency stay in that currency"""
    Money = money()
    Q = __import__('quantity')
    functional, _ = O.iso_table()
    u = Money.get_unit_by_symbol(c)
    sf = O.fr(u.smallest_fraction)
    m1, m2 = Money(O.dec(a1), u), Money(O.dec(a2), u)
    x1 = O.round_to(O.val(a1), sf, 'ROUND_HALF_EVEN')
    x2 = O.round_to(O.val(a2), sf, 'ROUND_HALF_EVEN')
    out = []
    for name, res, want in (('+', m1 + m2, x1 + x2), ('-', m1 - m2, x1 - x2),
                            ('sum', Q.sum([m1, m2, m2]), x1 + 2 * x2),
                            ('*k', m1 * 3, x1 * 3),
                            ('convert', m1.convert(u), x1)):
        if type(res) is not Money or res.unit is not u or \
                O.fr(res.amount) != O.round_to(want, sf, 'ROUND_HALF_EVEN'):
            out.append((f'C08:same:{name}', f"({m1}) {name} ({m2}) = "
                        f"{res!r}"))
    if x2 != 0:
        r = m1 / m2
        if isinstance(r, Q.Quantity) or O.fr(r) != x1 / x2:
            out.append(('C08:same:/', f"({m1}) / ({m2}) = {r!r}"))
    try:
        m1 * m2
        out.append(('C08:same:*', f"({m1}) * ({m2}) did not raise"))
    except Q.UndefinedResultError:
        pass
    if (m1 == Money(O.dec(a1), u)) is not True or \
            (m1 < m2) is not (x1 < x2):
        out.append(('C08:same:cmp', f"{m1} vs {m2}"))
    return out


USER_SF = [None, 'D:0.05', 'D:0.5', 'D:0.001', 'D:0.25', 'D:0.2', 'D:0.1',
           'D:0.3', 'i:0', 'D:-0.01', 'i:1', 'i:5']
USER_AMTS = ['D:1.03', 'i:7', 'D:0.025', 'D:-0.375', 'F:1/3', 'D:12.5',
             'D:0.0005', 'f:0.1', 's:1.03', 'D:2.4999']


def user_valid(minor, sf):
    """model of MoneyMeta.new_unit's documented validation"""
    if minor is not None and minor < 0:
        return False
    if sf is None:
        return True
    v = O.val(sf)
    if minor is None:
        if v <= 0:
            return False
        mult = 1 / v
        return mult.denominator == 1 and mult > 1
    # precision of the given smallest fraction must equal minor_unit
    import decimal
    digits = -decimal.Decimal(sf[2:]).normalize().as_tuple().exponent
    digits = max(digits, 0)
    # the docstring's ValueErrors ("not > 0", "1 is not an integer multiple",
    # "does not fit given minor_unit") hold whether or not a minor unit is
    # given as well
    if v <= 0 or (1 / v).denominator != 1:
        return False
    return digits == minor


@guarded('C08')
def run_user_currency(idx, minor, sf):
    Money = money()
    import quantity
    sym = f"U{idx:02d}"
    valid = user_valid(minor, sf)
    kw = {}
    if minor is not None:
        kw['minor_unit'] = minor
    if sf is not None:
        kw['smallest_fraction'] = O.dec(sf)
    before = [u.symbol for u in Money.units()]
    try:
        c = Money.new_unit(sym, f"user {idx}", **kw)
    except (ValueError, TypeError) as exc:
        if valid:
            return [('C08:user:rejected', f"new_unit({sym}, minor_unit="
                     f"{minor}, smallest_fraction={sf}) raised {exc!r}")]
        after = [u.symbol for u in Money.units()]
        if after != before:
            return [('C08:user:reject-trace', f"rejected currency {sym} "
                     "left a unit behind")]
        try:
            quantity.Unit(sym)
            return [('C08:user:reject-trace', f"rejected currency {sym} "
                     "is registered")]
        except ValueError:
            return []
    if valid is False:
        return [('C08:user:accepted', f"new_unit({sym}, minor_unit={minor}, "
                 f"smallest_fraction={sf}) accepted an invalid "
                 f"combination: {c.smallest_fraction!r}")]
    if valid is None:
        return []
    want_sf = O.val(sf) if sf is not None else \
        F(1, 10 ** (2 if minor is None else minor))
    out = []
    if O.fr(c.smallest_fraction) != want_sf:
        out.append(('C08:user:smallest-fraction', f"{sym}: "
                    f"{c.smallest_fraction!r} != {want_sf}"))
        return out
    for a in USER_AMTS:
        for form in ('ctor', 'mul', 'str'):
            v = O.dec(a)
            if form == 'ctor':
                m = Money(v, c)
            elif form == 'mul':
                if a[0] == 's':
                    continue
                m = v * c
            else:
                if a[0] in 'fs':
                    continue
                m = Money(f"{v} {sym}")
            want = O.round_to(O.val(a), want_sf, 'ROUND_HALF_EVEN')
            if m.unit is not c or O.fr(m.amount) != want:
                out.append((f'C08:user:rounding:{form}',
                            f"{a} in currency with smallest fraction "
                            f"{want_sf} ({form}): got {m.amount!r}, "
                            f"expected {want}"))
        # arithmetic results are rounded as well
        m = Money(O.dec('i:1'), c) * O.dec('D:1.03')
        if O.fr(m.amount) != O.round_to(F(103, 100), want_sf,
                                        'ROUND_HALF_EVEN'):
            out.append(('C08:user:rounding:arith', f"1 {sym} * 1.03 = "
                        f"{m.amount!r}"))
    # the symbol of a directly declared currency is still not an ISO code
    try:
        r = Money.register_currency(sym)
        out.append(('C08:iso:reject:declared-directly',
                    f"register_currency({sym!r}) returned {r!r}: {sym} is "
                    "not in the ISO 4217 table (a currency with that symbol "
                    "was declared with new_unit)"))
    except ValueError:
        pass
    return out


def prelude_converters(codes):
    """Converters were active earlier: one with-block left normally, one left
    by an exception (caught outside).  Afterwards no converter is active."""
    from quantity.money import Money, MoneyConverter
    from datetime import date
    base = Money.get_unit_by_symbol(codes[0])
    conv = MoneyConverter(base, lambda: date(2020, 3, 15))
    conv.update(None, [(Money.get_unit_by_symbol(c), 2, 1)
                       for c in codes[1:4]])
    with conv:
        Money(1, base).convert(Money.get_unit_by_symbol(codes[1]))
    try:
        with conv:
            Money(1, base).convert(Money.get_unit_by_symbol(codes[-1]))
            raise RuntimeError("leave by exception")
    except Exception:
        pass


def part_pairs(p, prelude):
    firsts, codes = p
    st = Stats()
    Money = money()
    for c in codes:
        Money.register_currency(c)
    if prelude:
        prelude_converters(codes)
    for c1 in firsts:
        for c2 in codes:
            if c1 == c2:
                continue
            st.state(('pair', c1, c2), nontrivial=True)
            for opname in MIXOPS:
                for a1, a2 in (('D:12.5', 'i:4'), ('i:0', 'D:-7.13'),
                               ('D:12.5', 'i:0'), ('i:0', 'D:0.0004')):
                    st.paths += 1
                    st.transitions += 1
                    st.evaluations += 1
                    for sig, msg in run_mix(c1, c2, opname, a1, a2):
                        st.violation(sig + (':after-converters' if prelude
                                            else ''), msg,
                                     {'mix': [c1, c2, opname, a1, a2],
                                      'codes': codes, 'prelude': prelude})
        st.paths += 1
        st.transitions += 8
        st.evaluations += 8
        for sig, msg in run_same(c1, 'D:12.345', 'D:-0.005'):
            st.violation(sig, msg, {'same': [c1, 'D:12.345', 'D:-0.005'],
                                    'codes': codes})
    return st


def part_table(p):
    codes, mode = p
    st = Stats()
    for code in codes:
        st.paths += 1
        st.transitions += 2 + len(AMTS)
        st.evaluations += 4 + len(AMTS)
        st.state(('iso', code, mode), nontrivial=True)
        for sig, msg in run_table_entry(code, mode):
            st.violation(sig, msg, {'iso': code, 'mode': mode})
    return st


@guarded('C08')
def run_usurped(code, minor, name):
    """an ISO code declared directly with data that differ from the table,
    then registered: either rejected, or the table's data"""
    Money = money()
    functional, _ = O.iso_table()
    ent = functional[code]
    kw = {} if minor is None else {'minor_unit': minor}
    Money.new_unit(code, name, **kw)
    try:
        c = Money.register_currency(code)
    except ValueError:
        return []
    (tminor,) = ent['minor']
    if c.name not in ent['names'] or \
            O.fr(c.smallest_fraction) != F(1, 10 ** tminor):
        return [('C08:iso:usurped-symbol',
                 f"Money.new_unit({code!r}, {name!r}, {minor}) followed by "
                 f"register_currency({code!r}) returned name {c.name!r}, "
                 f"smallest fraction {c.smallest_fraction!r}; the table says "
                 f"{ent['names']} and 10**-{tminor}")]
    return []


def part_usurped(p):
    st = Stats()
    st.paths += 1
    st.transitions += 2
    st.evaluations += 2
    st.state(('usurped',) + tuple(p), nontrivial=True)
    for sig, msg in run_usurped(*p):
        st.violation(sig, msg, {'usurped': list(p)})
    return st


def part_misc(_):
    st = Stats()
    functional, other = O.iso_table()
    rejects = ['XXQ', 'eur', '', 'EURO', 'EU', ' EUR', None, 5, 978] + \
        sorted(other)[:6]
    for arg in rejects:
        st.paths += 1
        st.transitions += 1
        st.evaluations += 2
        st.state(('reject', repr(arg)), nontrivial=True)
        for sig, msg in run_reject(arg):
            st.violation(sig, msg, {'reject': arg})
    idx = 0
    for minor in (None, 0, 1, 2, 3, 4, -1):
        for sf in USER_SF:
            idx += 1
            st.paths += 1
            st.transitions += 1 + 3 * len(USER_AMTS)
            st.evaluations += 1 + 3 * len(USER_AMTS)
            v = user_valid(minor, sf)
            st.state(('user', minor, sf), nontrivial=bool(v))
            st.outcomes[f'user-currency-valid={v}'] += 1
            for sig, msg in run_user_currency(idx, minor, sf):
                st.violation(sig, msg, {'user': [idx, minor, sf]})
    return st


def replay(case):
    if 'usurped' in case:
        return run_usurped(*case['usurped'])
    Money = money()
    if 'iso' in case:
        return run_table_entry(case['iso'],
                               case.get('mode', 'ROUND_HALF_EVEN'))
    if 'reject' in case:
        return run_reject(case['reject'])
    if 'user' in case:
        return run_user_currency(*case['user'])
    for c in case['codes']:
        Money.register_currency(c)
    if case.get('prelude'):
        prelude_converters(case['codes'])
    if 'mix' in case:
        return run_mix(*case['mix'])
    return run_same(*case['same'])


def run(tier, seed):
    functional, other = O.iso_table()
    codes = sorted(functional)
    total = Stats()
    total.merge(pmap(part_table, [(codes[i::8], m) for i in range(8)
                                  for m in O.MODES], fresh=True))
    total.merge(pmap(part_misc, [0], fresh=True))
    total.merge(pmap(part_usurped, [('KWD', 2, 'Kuwait Dollar'),
                                    ('JPY', 2, 'my yen'),
                                    ('EUR', 2, 'Euro'),
                                    ('EUR', 2, 'euro (mine)'),
                                    ('TND', None, 'Tunisian Dinar'),
                                    ('CLF', 4, 'Unidad de Fomento')],
                     fresh=True))
    if tier == 'thorough':
        sub = codes
    else:
        k = seed % len(codes)
        rot = codes[k:] + codes[:k]
        must = ['EUR', 'USD', 'JPY', 'TND', 'CLF']
        sub = must + [c for c in rot[::len(codes) // (QUICK_N - 5)]
                      if c not in must][:QUICK_N - 5]
    parts = [([c], sub) for c in sub]
    total.merge(pmap(part_pairs, parts, (False,), fresh=True))
    total.merge(pmap(part_pairs, parts[:8] if tier == 'quick' else parts,
                     (True,), fresh=True))
    total.sample({'mix': ['EUR', 'JPY', '/', 'D:12.5', 'i:4']})
    total.sample({'iso': 'TND', 'expect': 'Tunisian Dinar, 0.001'})
    total.sample({'user': [3, None, 'D:0.05']})
    total.extra['currencies_in_table'] = len(codes)
    total.extra['currencies_in_pair_part'] = len(sub)
    return total, dict(
        rule=f"all {len(codes)} functional currencies of the bundled table "
             "(registered twice, name, smallest fraction, 5 roundings), each "
             "first registered under each of the 8 default rounding modes; "
             "rejected codes; all combinations of minor_unit in "
             "{None,0..4,-1} x 12 smallest fractions for user currencies x "
             f"10 amounts x 3 forms; all ordered pairs of {len(sub)} "
             f"currencies x {len(MIXOPS)} mixing operations x 2 amount "
             "pairs, with no converter ever active and again after "
             "converters were active in with-blocks left normally / by "
             "exception. non-trivial = every pair / table entry",
        level_text="complete enumeration of the ISO table; bounded "
                   "exhaustive enumeration of currency pairs x operators",
        assumptions=["oracle: independent regex parse of iso_4217.xml"],
        exhaustive=(tier == 'thorough'))
