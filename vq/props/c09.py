"""C09 Exchange rates: normal form, accuracy, inversion and triangulation.

Engine V: grid of unit multiples x (mantissa x 10^e) term amounts x number
kinds x currency pairs -> construct or reject; every constructed rate is
inverted; all ordered pairs of a 60-rate sub-grid over 3 currencies are
multiplied and divided.  Oracle: normal-form predicate and exact Fractions.
"""
import math
import re
from fractions import Fraction as F

from .. import oracle as O
from ..core import Stats, guarded, pmap

CUR = ['EUR', 'USD', 'JPY', 'TND']
POW10 = [1, 10, 100, 1000, 10 ** 6]
OTHER_INT = [2, 5, 9, 20, 99, 250, 999999]
BAD_MULT = ['i:0', 'i:-1', 'D:1.5', 'F:1/3', 'D:0.1', 's:abc', 'D:-10']
MANT = [F(1), F(3, 2), F(999999, 100000), F(10000005, 10000000),
        F(49999995, 10000000), F(1, 3), F(2, 7)]
EXPS = list(range(-7, 7))
BAD_TERM = ['i:0', 'i:-1', 'D:0.0000001', 'D:0.00000099', 's:abc', 'f:inf',
            'f:nan', 'N:None', 'D:-0.5', 'F:-1/3', 'f:-0.0', 'D:0', 'D:0.00',
            'F:0/1', 's:0']
# amounts without finite decimal expansion a hair (1/(3e30)) beside a tie of
# the 7th significant digit, and beside the smallest admissible amount
_EPS = F(1, 3 * 10 ** 30)
NEAR = [F(1234575, 10 ** 7) - _EPS, F(1234585, 10 ** 7) + _EPS,
        (F(1234575, 10 ** 7) - _EPS) / 1000, F(8765435, 10 ** 3) - _EPS,
        F(1, 10 ** 6) - _EPS, F(1, 10 ** 6) + _EPS]
HALF = F(1, 2 * 10 ** 6)
MIN_TERM = F(1, 10 ** 6)

_REPR = re.compile(r"^ExchangeRate\(Currency\('(\w+)'\), (.+?), "
                   r"Currency\('(\w+)'\), (.+)\)$")
_DEC = re.compile(r"^Decimal\((?:'(-?[\d.]+)'|(-?\d+))(?:, \d+)?\)$")


def money():
    from quantity.money import Money
    return Money


def cur(code):
    return money().get_unit_by_symbol(code)


_cur = cur


def spell(x, kind):
    """value x (Fraction) as object of the given kind, or None"""
    from decimalfp import Decimal
    x = F(x)
    if kind == 'i':
        return int(x) if x.denominator == 1 else None
    if kind == 'F':
        return x
    if kind == 'D':
        try:
            return Decimal(x)
        except ValueError:
            return None
    if kind == 's':
        try:
            return str(Decimal(x))
        except ValueError:
            return f"{x.numerator}/{x.denominator}"
    if kind == 'f':
        return float(x)
    if kind == 'D0':        # decimal holding trailing fractional zeros
        try:
            d = Decimal(x)
        except ValueError:
            return None
        return Decimal(d, d.precision + 3)
    if kind == 's0':
        try:
            return str(Decimal(x)) + ('00' if '.' in str(Decimal(x))
                                      else '.00')
        except ValueError:
            return None
    raise ValueError(kind)


def exact_of(obj):
    """exact value the constructor is given"""
    if isinstance(obj, float):
        return F(obj)
    if isinstance(obj, str):
        if '/' in obj:
            n, d = obj.split('/')
            return F(int(n), int(d))
        import decimal
        return F(decimal.Decimal(obj))
    return F(obj.numerator, obj.denominator)


def fields(r):
    """(unit code, M, term code, T) read from repr(rate)"""
    m = _REPR.match(repr(r))
    if not m:
        raise ValueError(f"unexpected repr: {r!r}")
    out = []
    for txt in (m.group(2), m.group(4)):
        d = _DEC.match(txt)
        if not d:
            raise ValueError(f"unexpected number in repr: {txt}")
        out.append(F(d.group(1) or d.group(2)))
    return m.group(1), out[0], m.group(3), out[1]


def normal_form(r, true_rate, what, tag):
    """-> violations of the normal form / accuracy of rate object r"""
    out = []
    try:
        uc, M, tc, T = fields(r)
    except ValueError as exc:
        return [(f'{tag}:repr', f"{what}: {exc}")]
    k = 0
    m = M
    while m > 1 and m % 10 == 0:
        m //= 10
        k += 1
    if M < 1 or m != 1:
        out.append((f'{tag}:multiple', f"{what}: unit multiple {M} is not a "
                    "power of ten >= 1"))
    if T <= 0:
        out.append((f'{tag}:term-sign', f"{what}: term amount {T}"))
        return out
    if (T * 10 ** 6).denominator != 1:
        out.append((f'{tag}:term-digits', f"{what}: term amount {T} has "
                    "more than 6 fractional digits"))
    if T < F(1, 10):
        out.append((f'{tag}:magnitude', f"{what}: term amount {T} has "
                    "magnitude below -1"))
    if abs(T - true_rate * M) > HALF:
        out.append((f'{tag}:accuracy', f"{what}: term amount {T} per {M}, "
                    f"true rate x multiple = {true_rate * M} (off by "
                    f"{float(abs(T - true_rate * M)):.3g})"))
    if O.fr(r.rate) != T / M:
        out.append((f'{tag}:rate', f"{what}: .rate {r.rate!r} != {T}/{M}"))
    if O.fr(r.rate) * O.fr(r.inverse_rate) != 1:
        out.append((f'{tag}:inverse-rate', f"{what}: rate * inverse_rate = "
                    f"{O.fr(r.rate) * O.fr(r.inverse_rate)}"))
    q = r.quotation
    if q[0].symbol != uc or q[1].symbol != tc or O.fr(q[2]) != T / M or \
            r.unit_currency.symbol != uc or r.term_currency.symbol != tc:
        out.append((f'{tag}:quotation', f"{what}: quotation {q!r}"))
    return out


@guarded('C09')
def run_construct(uc, mult, tc, term, st=None, spell_cur='oo'):
    """mult, term: [kind, 'n/d'] or a code from BAD_*; spell_cur: how the two
    currencies are given, o = Currency object, c = ISO code string"""
    from quantity.money import ExchangeRate

    def cur(code, which=[0]):
        i = which[0] % 2
        which[0] += 1
        return _cur(code) if spell_cur[i] == 'o' else code
    bad = False
    if isinstance(mult, str):
        mobj = None if mult == 'N:None' else O.dec(mult)
        bad = True
        mval = None
    else:
        mobj = spell(F(mult[1]), mult[0])
        mval = F(mult[1])
    if isinstance(term, str):
        if term == 'N:None':
            tobj = None
        elif term.startswith('f:'):
            tobj = float(term[2:])
        else:
            tobj = O.dec(term)
        bad = True
        tval = None
    else:
        tobj = spell(F(term[1]), term[0])
        tval = None if tobj is None else exact_of(tobj)
    if (mobj is None and not isinstance(mult, str)) or \
            (tobj is None and not isinstance(term, str)):
        return []      # this value has no spelling of this kind
    what = f"ExchangeRate({uc}, {mobj!r}, {tc}, {tobj!r})"
    if st is not None:
        st.transitions += 1
        st.evaluations += 1
    try:
        r, err = ExchangeRate(cur(uc), mobj, cur(tc), tobj), None
    except Exception as exc:
        r, err = None, exc
    must_reject = bad or uc == tc or (tval is not None and tval < MIN_TERM)
    if must_reject:
        if isinstance(err, (ValueError, TypeError)):
            if st is not None:
                st.outcomes['rejected'] += 1
            return []
        return [('C09:reject:' + (type(err).__name__ if err else 'accepted'),
                 f"{what}: expected rejection with ValueError/TypeError, got "
                 f"{type(err).__name__ if err else repr(r)}")]
    if err is not None:
        return [('C09:construct:raises', f"{what} raised "
                 f"{type(err).__name__}: {err}")]
    true_rate = tval / mval
    tag = 'C09:construct' + ('' if mval in POW10 else ':other-multiple')
    out = normal_form(r, true_rate, what, tag)
    if st is not None:
        st.outcomes['constructed'] += 1
    if out:
        return out
    # inversion
    uc2, M, tc2, T = fields(r)
    inv_true = M / T
    try:
        inv, err = r.inverted(), None
    except Exception as exc:
        inv, err = None, exc
    if st is not None:
        st.transitions += 1
        st.evaluations += 1
    if err is not None:
        if inv_true < MIN_TERM and isinstance(err, ValueError):
            return []
        return [('C09:inverted:raises', f"({r!r}).inverted() raised "
                 f"{type(err).__name__}: {err}")]
    if inv.unit_currency is not r.term_currency or \
            inv.term_currency is not r.unit_currency:
        return [('C09:inverted:currencies', f"({r!r}).inverted() = {inv!r}")]
    out = normal_form(inv, inv_true, f"({r!r}).inverted()", 'C09:inverted')
    if not out:
        # inverting the inverted rate: approximates the reciprocal of *that*
        # rate (not necessarily the original one), and equal rates invert
        # equally however they were made
        uc3, M3, tc3, T3 = fields(inv)
        try:
            inv2 = inv.inverted()
            out += normal_form(inv2, M3 / T3, f"({r!r}).inverted().inverted()",
                               'C09:inverted-twice')
            fresh = ExchangeRate(inv.unit_currency, M3, inv.term_currency,
                                 T3).inverted()
            if not (fresh == inv2):
                out.append(('C09:inverted-twice:history',
                            f"({inv!r}).inverted() = {inv2!r}, but an equal "
                            f"freshly built rate inverts to {fresh!r}"))
        except ValueError:
            if M3 / T3 >= MIN_TERM:
                out.append(('C09:inverted-twice:raises', f"({inv!r})"
                            ".inverted() raised ValueError"))
        if st is not None:
            st.transitions += 2
            st.evaluations += 2
    # string spelling of currencies gives the same rate
    if not out and st is not None and mval == 1:
        r2 = ExchangeRate(uc, mobj, tc, tobj)
        if not (r2 == r) or hash(r2) != hash(r):
            out.append(('C09:construct:by-code', f"{what} by ISO codes "
                        f"gives {r2!r}"))
    return out


@guarded('C09')
def run_triangulate(a, b, opname):
    """a, b: [unit code, term code, 'n/d' rate]"""
    from quantity.money import ExchangeRate
    ra = ExchangeRate(cur(a[0]), 1, cur(a[1]), F(a[2]))
    rb = ExchangeRate(cur(b[0]), 1, cur(b[1]), F(b[2]))
    va, vb = O.fr(ra.rate), O.fr(rb.rate)
    what = f"({ra!r}) {opname} ({rb!r})"
    try:
        res, err = (ra * rb if opname == '*' else ra / rb), None
    except Exception as exc:
        res, err = None, exc
    au, at, bu, bt = a[0], a[1], b[0], b[1]
    if opname == '*':
        if au == bt:
            want = (bu, at)
        elif at == bu:
            want = (au, bt)
        else:
            want = None
        rho = va * vb
    else:
        if au == bu:
            want = (bt, at)
        elif at == bt:
            want = (au, bu)
        else:
            want = None
        rho = va / vb
    if want is None:
        if isinstance(err, ValueError):
            return []
        return [(f'C09:triangulate:{opname}:reject', f"{what}: currencies "
                 f"do not chain, expected ValueError, got "
                 f"{type(err).__name__ if err else repr(res)}")]
    if want[0] == want[1]:
        # the result would pair a currency with itself: rejection accepted
        if err is not None and not isinstance(err, ValueError):
            return [(f'C09:triangulate:{opname}:raises', f"{what}: "
                     f"{type(err).__name__}")]
        if err is None:
            return [(f'C09:triangulate:{opname}:self-pair', f"{what} = "
                     f"{res!r}")]
        return []
    if err is not None:
        if rho < MIN_TERM and isinstance(err, ValueError):
            return []
        return [(f'C09:triangulate:{opname}:raises', f"{what} raised "
                 f"{type(err).__name__}: {err}")]
    if not isinstance(res, ExchangeRate) or \
            res.unit_currency.symbol != want[0] or \
            res.term_currency.symbol != want[1]:
        return [(f'C09:triangulate:{opname}:direction', f"{what} = {res!r}, "
                 f"expected {want[0]} -> {want[1]}")]
    return normal_form(res, rho, what, f'C09:triangulate:{opname}')


def part_construct(p, kinds_m, kinds_t, exps):
    mults, pairs = p
    st = Stats()
    Money = money()
    for c in CUR:
        Money.register_currency(c)
    for uc, tc in pairs:
        for mv in mults:
            for km in (kinds_m if not isinstance(mv, str) else ['x']):
                mult = mv if isinstance(mv, str) else [km, str(F(mv))]
                terms = []
                for mant in MANT:
                    for e in exps:
                        for kt in kinds_t:
                            terms.append([kt, str(mant * F(10) ** e)])
                terms += [[kt, str(v)] for v in NEAR for kt in ('F', 's')
                          if kt in kinds_t or kt == 'F']
                terms += BAD_TERM
                for ti, term in enumerate(terms):
                    spells = ['oo']
                    if uc == tc or ti % 97 == 0:
                        spells = ['oo', 'oc', 'co', 'cc']
                    for sp in spells:
                        st.paths += 1
                        key = (uc, tc, str(mult), str(term))
                        st.state(key, nontrivial=not isinstance(term, str)
                                 and not isinstance(mult, str) and uc != tc)
                        for sig, msg in run_construct(uc, mult, tc, term, st,
                                                      sp):
                            st.violation(sig, msg, {'construct': [
                                uc, mult, tc, term, None, sp]})
    return st


def tri_rates():
    vals = [F(1), F(11, 10), F(1, 3), F(15000, 100), F(164146, 100000000),
            F(999999, 1000000), F(123456789, 1000), F(2, 7) / 1000,
            F(1000001, 1000000), F(5, 1000000)]
    pairs = [(a, b) for a in CUR[:3] for b in CUR[:3] if a != b]
    return [[a, b, str(v)] for (a, b) in pairs for v in vals]


def part_tri(p):
    st = Stats()
    Money = money()
    for c in CUR:
        Money.register_currency(c)
    rates = tri_rates()
    for a in p:
        for b in rates:
            for opname in '*/':
                st.paths += 1
                st.transitions += 1
                st.evaluations += 1
                st.state(('tri', tuple(a), tuple(b), opname),
                         nontrivial=True)
                for sig, msg in run_triangulate(a, b, opname):
                    st.violation(sig, msg, {'triangulate': [a, b, opname]})
    return st


def part_modes(mode, rates):
    O.set_mode(mode)
    st = Stats()
    a = part_construct(([1, 3, 7, 100, 250], [('EUR', 'USD'),
                                               ('JPY', 'EUR')]),
                       ['i', 'D'], ['D', 'F', 'f'], [-6, -3, -1, 0, 2, 5])
    b = part_tri(rates)
    for part in (a, b):
        viol, part.viol = part.viol, {}
        st.merge(part)
        for sig, (n, msg, cases) in viol.items():
            for c in cases:
                st.violation(sig + ':configured-mode', f"[{mode}] {msg}",
                             dict(c['case'], mode=mode))
            ent = st.viol.get(sig + ':configured-mode')
            if ent is not None:
                ent[0] += n - len(cases)
    return st


def replay(case):
    if case.get('mode'):
        O.set_mode(case['mode'])
    Money = money()
    for c in CUR:
        Money.register_currency(c)
    if 'construct' in case:
        return run_construct(*case['construct'])
    return run_triangulate(*case['triangulate'])


def run(tier, seed):
    total = Stats()
    main_pair = [('EUR', 'USD')]
    all_pairs = [(a, b) for a in CUR for b in CUR]
    kinds_m = ['i', 'D', 'F', 's', 'D0', 's0']
    kinds_t = ['D', 'F', 'f', 's']
    mults = POW10 + OTHER_INT + BAD_MULT
    parts = [([m], main_pair) for m in mults]
    if tier == 'quick':
        exps = EXPS
        parts2 = [([1, 100, 250, 'i:0'], [pr]) for pr in all_pairs]
        total.merge(pmap(part_construct, parts, (kinds_m, kinds_t, exps),
                         fresh=True))
        total.merge(pmap(part_construct, parts2, (['i'], ['D', 'F'],
                                                  [-6, -1, 0, 3]),
                         fresh=True))
    else:
        parts = [([m], [pr]) for m in mults for pr in all_pairs]
        total.merge(pmap(part_construct, parts,
                         (kinds_m, kinds_t, list(range(-8, 9))), fresh=True))
    rates = tri_rates()
    total.merge(pmap(part_tri, [rates[i::16] for i in range(16)],
                     fresh=True))
    # the accuracy bound is half a unit whatever default rounding mode is
    # configured: a sub-grid under each of the other seven modes
    total.merge(pmap(part_modes, [m for m in O.MODES
                                  if m != 'ROUND_HALF_EVEN'],
                     (rates[::5 if tier == 'quick' else 2],), fresh=True))
    total.sample({'construct': ['EUR', ['i', '250'], 'USD', ['D', '1/5']],
                  'meaning': '250 EUR = 0.2 USD'})
    total.sample({'triangulate': [['EUR', 'USD', '11/10'],
                                  ['EUR', 'JPY', '150'], '/']})
    total.extra['rates_in_triangulation_grid'] = len(rates)
    return total, dict(
        rule="unit multiples {1,10,100,1000,1e6} + {2,5,9,20,99,250,999999} "
             "+ 7 invalid, each as int/Decimal/Fraction/str x term amounts "
             "7 mantissas x 10^e (e=-7..6; thorough -8..8) as Decimal/"
             "Fraction/float/str + 11 invalid x currency pairs (quick: "
             "EUR->USD full grid, all 16 ordered pairs incl. identical on a "
             "sub-grid; thorough: all pairs full grid); every constructed "
             "rate inverted; all ordered pairs of 60 rates over 3 currencies "
             "x {*, /}. non-trivial = valid inputs with distinct currencies",
        level_text="bounded exhaustive enumeration; oracle = normal-form "
                   "predicate on the repr fields and exact Fractions",
        assumptions=["accuracy bound judged under ROUND_HALF_EVEN; float "
                     "inputs judged by their exact binary value; rejection "
                     "accepted for inverted / triangulated rates below "
                     "1e-6 or pairing a currency with itself"])
