"""C10 Applying an exchange rate converts money and prices correctly.

Engine V: money amounts x rates x both operand orders x {*, /} for matching
and non-matching currencies under several default modes; compound worlds
(forked): Money/Mass, Money/Length, Money/Duration^2 with every subset of the
units {EUR, USD} x {kg, g} declared or missing.
"""
import itertools
from fractions import Fraction as F

from .. import oracle as O
from ..core import Stats, guarded, pmap
from ..world import World

CUR = {'EUR': F(1, 100), 'USD': F(1, 100), 'JPY': F(1), 'TND': F(1, 1000)}
# a user-declared currency whose smallest fraction is no power of ten
USER_CUR = {'XNF': F(1, 20)}


def register_all():
    Money = money()
    for x in CUR:
        if x in USER_CUR:
            if x not in Money:
                Money.new_unit(x, 'nickel franc',
                               smallest_fraction=O.dec('D:0.05'))
        else:
            Money.register_currency(x)


CUR.update(USER_CUR)
RATE_VALS = [F(1), F(11, 10), F(1, 3), F(150), F(164146, 100000000),
             F(999999, 1000000), F(151234567, 1000000),
             F(12345678901, 1000000), F(8481300, 1000000), F(2, 7),
             F(1000001, 1000000), F(5, 1000)]
AMTS = [F(0), F(1, 100), F(1), F(527, 100), F(-1250, 100), F(10 ** 9),
        F(1, 3), F(999, 1000), F(-7, 1000), F(123456789, 1000)]


def money():
    from quantity.money import Money
    return Money


def cur(c):
    return money().get_unit_by_symbol(c)


def mk_rate(uc, tc, v):
    from quantity.money import ExchangeRate
    return ExchangeRate(cur(uc), 1, cur(tc), F(v))


@guarded('C10')
def run_money(c, a, uc, tc, v, form, mode, st=None):
    """form: 'm*r', 'r*m', 'm/r'"""
    Money = money()
    O.set_mode(mode)
    m = Money(F(a), cur(c))
    sa = O.round_to(F(a), CUR[c], mode)
    r = mk_rate(uc, tc, v)
    rv = O.fr(r.rate)
    what = f"{form}: ({m!r}), ({r!r}) [{mode}]"
    try:
        if form == 'm*r':
            res = m * r
        elif form == 'r*m':
            res = r * m
        else:
            res = m / r
        err = None
    except Exception as exc:
        res, err = None, exc
    if st is not None:
        st.transitions += 1
        st.evaluations += 1
    if form in ('m*r', 'r*m'):
        match, target, exact = c == uc, tc, sa * rv
    else:
        match, target, exact = c == tc, uc, sa / rv
    if not match:
        if st is not None:
            st.outcomes['mismatch'] += 1
        if isinstance(err, ValueError):
            return []
        return [(f'C10:money:{form}:mismatch', f"{what}: expected "
                 f"ValueError, got "
                 f"{type(err).__name__ if err else repr(res)}")]
    if err is not None:
        return [(f'C10:money:{form}:raises', f"{what} raised "
                 f"{type(err).__name__}: {err}")]
    want = O.round_to(exact, CUR[target], mode)
    if st is not None:
        st.outcomes['converted'] += 1
    if type(res) is not Money or res.unit is not cur(target) or \
            isinstance(res.amount, float) or O.fr(res.amount) != want:
        return [(f'C10:money:{form}:value', f"{what} = {res!r}; exact "
                 f"{exact}, rounded once to {CUR[target]}: {want}")]
    return []


# ---------------------------------------------------------------------------
# compound worlds

COMPOUND_UNITS = [('EUR', 'kg'), ('USD', 'kg'), ('EUR', 'g'), ('USD', 'g')]


def build_compound(mask, kind):
    """kind: 'mass' (Money/Mass), 'length' (Money/Length),
    'dur2' (Money/Duration**2)"""
    Money = money()
    w = World(catalogue=True)
    for c in CUR:
        if c in USER_CUR:
            w.must(['newcur', c, None, 'D:0.05'])
        else:
            w.must(['cur', c])
    if kind in ('mass', 'mass-xref'):
        # 'mass-xref': the same type declared with an explicit reference
        # unit symbol although Money has no reference unit
        res = w.must(['dtype', 'PPX', [['Money', 1], ['Mass', -1]],
                       'X' if kind == 'mass-xref' else None, None])
        den = {'kg': 'kg', 'g': 'g'}
    elif kind == 'length':
        res = w.must(['dtype', 'PPX', [['Money', 1], ['Length', -1]], None,
                       None])
        den = {'kg': 'm', 'g': 'mm'}
    elif kind == 'mh':
        res = w.must(['dtype', 'PPX', [['Money', 1], ['Mass', -1],
                                       ['Duration', -1]], None, None])
        den = {}
    else:
        res = w.must(['dtype', 'PPX', [['Money', 1], ['Duration', -2]],
                       None, None])
        den = {'kg': 's', 'g': 'ms'}
    declared = []
    if kind == 'mh':
        # symbols with two division signs, one unit defined through the other
        w.must(['unit', 'PPX', 'EUR/kg/h', ['derive', ['EUR', 'kg', 'h']]])
        declared.append('EUR/kg/h')
        if mask & 2:
            w.must(['unit', 'PPX', 'EUR/g/h', ['scaled', 'i:1000',
                                                'EUR/kg/h']])
            declared.append('EUR/g/h')
        if mask & 4:
            w.must(['unit', 'PPX', 'USD/kg/h', ['derive', ['USD', 'kg',
                                                           'h']]])
            declared.append('USD/kg/h')
        return w, declared
    for i, (c, d) in enumerate(COMPOUND_UNITS):
        if mask >> i & 1:
            sym = f"{c}/{den[d]}" + ('²' if kind == 'dur2' else '')
            w.must(['unit', 'PPX', sym, ['derive', [c, den[d]]]])
            declared.append(sym)
    # price units defined through another price unit (currency one level
    # down in the definition)
    if kind == 'mass' and mask & 3 == 3:
        for c in ('EUR', 'USD'):
            sym = f"c{c}/kg"
            w.must(['unit', 'PPX', sym, ['scaled', 'D:0.01', f"{c}/kg"]])
            declared.append(sym)
    return w, declared


@guarded('C10')
def run_compound(w, psym, a, uc, tc, v, form, st=None):
    Q = w.q
    u = w.units[psym]
    cls = u.qty_cls
    p = cls(F(a), u)
    r = mk_rate(uc, tc, v)
    rv = O.fr(r.rate)
    what = f"{form}: ({p!r}), ({r!r})"
    try:
        if form == 'p*r':
            res = p * r
        elif form == 'r*p':
            res = r * p
        else:
            res = p / r
        err = None
    except Exception as exc:
        res, err = None, exc
    if st is not None:
        st.transitions += 1
        st.evaluations += 1
    um = w.um[psym]
    # currency inside the compound unit
    pc = [s for s, e in um.udim if s in CUR]
    if form in ('p*r', 'r*p'):
        src, dst, factor = uc, tc, rv
    else:
        src, dst, factor = tc, uc, 1 / rv
    if not pc or pc[0] != src:
        if st is not None:
            st.outcomes['no-match'] += 1
        if isinstance(err, Q.QuantityError):
            return []
        return [(f'C10:compound:{form}:mismatch', f"{what}: expected "
                 "QuantityError, got "
                 f"{type(err).__name__ if err else repr(res)}")]
    tdim = tuple(sorted((dst if s == src else s, e) for s, e in um.udim))
    tm = w.tm[um.tname]
    exact = [s for s in tm.units if w.um[s].udim == tdim
             and w.um[s].ufac == um.ufac]
    anyu = [s for s in tm.units if w.um[s].udim == tdim]
    if err is not None:
        if not isinstance(err, Q.QuantityError):
            return [(f'C10:compound:{form}:raises', f"{what} raised "
                     f"{type(err).__name__}: {err}")]
        if exact:
            return [(f'C10:compound:{form}:missed', f"{what} raised although "
                     f"{exact[0]} is declared")]
        if st is not None:
            st.outcomes['undeclared'] += 1
        return []
    if not anyu:
        return [(f'C10:compound:{form}:invented', f"{what} = {res!r} although"
                 " no unit of the target dimension is declared")]
    if type(res) is not cls or res.unit.symbol not in anyu:
        return [(f'C10:compound:{form}:unit', f"{what} = {res!r}")]
    if exact and res.unit.symbol not in exact:
        return [(f'C10:compound:{form}:unit', f"{what} = {res!r}, expected "
                 f"unit {exact[0]}")]
    want = F(a) * factor * um.ufac / w.um[res.unit.symbol].ufac
    if st is not None:
        st.outcomes['compound-converted'] += 1
    if isinstance(res.amount, float) or not O.is_exact(res.amount) or \
            O.fr(res.amount) != want:
        return [(f'C10:compound:{form}:value', f"{what} = {res!r}, expected "
                 f"amount {want}")]
    return []


@guarded('C10')
def run_price_times_mass(w, psym, msym, a, order, st=None):
    """quantity * price: the money that results is in the price's own
    currency, whatever was multiplied before"""
    Q = w.q
    from quantity.money import Money
    pu, mu = w.units[psym], w.units[msym]
    price, mass = pu.qty_cls(F(a), pu), mu.qty_cls(F(3), mu)
    um = w.um[psym]
    (c,) = [s for s, e in um.udim if s in CUR]
    exact = F(a) * um.ufac * 3 * w.um[msym].scale
    want = O.round_to(exact, CUR[c], O.get_mode())
    try:
        res = price * mass if order == 'p*m' else mass * price
    except Exception as exc:
        return [(f'C10:price-times-quantity:{order}:raises',
                 f"({price!r}) x ({mass!r}): {type(exc).__name__}: {exc}")]
    if st is not None:
        st.transitions += 1
        st.evaluations += 1
    if type(res) is not Money or res.unit is not w.units[c] or \
            O.fr(res.amount) != want:
        return [(f'C10:price-times-quantity:{order}',
                 f"({price!r}) x ({mass!r}) = {res!r}, expected {want} {c}")]
    return []


def rates_for(tier):
    pairs = [('EUR', 'USD'), ('USD', 'EUR'), ('EUR', 'JPY'), ('JPY', 'EUR'),
             ('USD', 'TND'), ('TND', 'JPY'), ('EUR', 'XNF'), ('XNF', 'USD')]
    vals = RATE_VALS if tier == 'thorough' else RATE_VALS[:8]
    return [(a, b, str(v)) for a, b in pairs for v in vals]


def near_tie_amounts(factor, src_q, dst_q):
    """Amounts n*src_q whose product with `factor`, measured in target quanta,
    is an exact tie (k + 1/2) or as close to a tie as the grids allow -- the
    inputs on which a second rounding or a pre-rounded rate shows."""
    ratio = F(factor) * F(src_q) / F(dst_q)
    P, Q = ratio.numerator, ratio.denominator
    if Q == 1:
        return []
    inv = pow(P, -1, Q)
    out = []
    for delta in (0, 1, -1, 2, -2):
        n = (((Q // 2) + delta) % Q) * inv % Q
        if n:
            out.append(n * F(src_q))
            out.append(-n * F(src_q))
    return out


def part_money(p, rates):
    c, mode = p
    st = Stats()
    Money = money()
    register_all()
    for a in AMTS:
        for uc, tc, v in rates:
            for form in ('m*r', 'r*m', 'm/r'):
                st.paths += 1
                st.state((c, a, uc, tc, v, form), nontrivial=a != 0)
                for sig, msg in run_money(c, str(a), uc, tc, v, form, mode,
                                          st):
                    st.violation(sig, msg, {'money': [c, str(a), uc, tc, v,
                                                      form, mode]})
    # with a money converter ACTIVE a non-matching currency must still be
    # rejected (the converter must not be consulted by rate application)
    from datetime import date
    from quantity.money import MoneyConverter
    conv = MoneyConverter(cur('EUR'), lambda: date(2020, 1, 1))
    conv.update(None, [(cur('USD'), O.dec('D:1.25'), 1),
                       (cur('JPY'), O.dec('i:125'), 1),
                       (cur('TND'), O.dec('D:3.2'), 1)])
    with conv:
        for a in AMTS[1:4]:
            for uc, tc, v in rates[::3]:
                for form in ('m*r', 'r*m', 'm/r'):
                    st.paths += 1
                    for sig, msg in run_money(c, str(a), uc, tc, v, form,
                                              mode, st):
                        st.violation(sig + ':converter-active', msg, {
                            'money': [c, str(a), uc, tc, v, form, mode],
                            'converter': True})
    # amounts at and next to the ties of each matching (rate, operation)
    for uc, tc, v in rates:
        rv = O.fr(mk_rate(uc, tc, v).rate)
        for form in ('m*r', 'm/r'):
            if form == 'm*r' and c == uc:
                amts = near_tie_amounts(rv, CUR[c], CUR[tc])
            elif form == 'm/r' and c == tc:
                amts = near_tie_amounts(1 / rv, CUR[c], CUR[uc])
            else:
                continue
            for a in amts:
                st.paths += 1
                st.state((c, a, uc, tc, v, form), nontrivial=True)
                st.outcomes['near-tie'] += 1
                for sig, msg in run_money(c, str(a), uc, tc, v, form, mode,
                                          st):
                    st.violation(sig + ':near-tie', msg, {
                        'money': [c, str(a), uc, tc, v, form, mode]})
    return st


@guarded('C10')
def run_xref_mixing(w, s1, s2, tag='C10:explicit-ref-unit'):
    """two price units of different currencies never mix"""
    Q = w.q
    u1, u2 = w.units[s1], w.units[s2]
    a, b = u1.qty_cls(3, u1), u2.qty_cls(3, u2)
    out = []
    for name, f in (('==', lambda: a == b), ('+', lambda: a + b),
                    ('<', lambda: a < b), ('convert', lambda: a.convert(u2))):
        try:
            r = f()
        except Q.QuantityError:
            continue
        except Exception as exc:
            r = exc
        if name == '==' and r is False:
            continue
        out.append((tag + ':currencies-mixed',
                    f"(3 {s1}) {name} (3 {s2}) gives {r!r} although the "
                    "prices are in different currencies"))
    return out


def part_subclass(mode):
    """(fork) a Python sub-class of Money with currencies of its own: rate
    application yields an instance of that class in the other currency"""
    from quantity.money import Money, ExchangeRate
    st = Stats()
    O.set_mode(mode)
    Coin = type(Money)('Coin', (Money,), {})
    btc = Coin.new_unit('BTC', 'Bitcoin', 8)
    eth = Coin.new_unit('ETH', 'Ether', 6)
    rate = ExchangeRate(btc, 1, eth, O.dec('D:16.482536'))
    rv = O.fr(rate.rate)
    # rates between a currency of the sub-class and one of Money itself, in
    # both directions: the result is money of the resulting currency's class
    eur = Money.register_currency('EUR')
    xrate = ExchangeRate(btc, 1, eur, O.dec('D:50123.45'))
    xv = O.fr(xrate.rate)
    yrate = ExchangeRate(eur, 100, eth, O.dec('D:0.0375'))
    yv = O.fr(yrate.rate)
    for a in (F(1, 2), F(-1, 3), F(0), F(123456789, 100000000), F(10 ** 6)):
        m = Coin(a, btc)
        sa = O.fr(m.amount)
        e = Coin(a, eth)
        se = O.fr(e.amount)
        me = Money(a, eur)
        sm = O.fr(me.amount)
        for form, f, want, unit, q in (
                ('m*r', lambda: m * rate, sa * rv, eth, F(1, 10 ** 6)),
                ('r*m', lambda: rate * m, sa * rv, eth, F(1, 10 ** 6)),
                ('m/r', lambda: e / rate, se / rv, btc, F(1, 10 ** 8)),
                ('cross-class:m*r', lambda: m * xrate, sa * xv, eur,
                 F(1, 100)),
                ('cross-class:r*m', lambda: xrate * m, sa * xv, eur,
                 F(1, 100)),
                ('cross-class:m/r', lambda: me / xrate, sm / xv, btc,
                 F(1, 10 ** 8)),
                ('cross-class:m*r', lambda: me * yrate, sm * yv, eth,
                 F(1, 10 ** 6)),
                ('cross-class:m/r', lambda: e / yrate, se / yv, eur,
                 F(1, 100))):
            st.paths += 1
            st.transitions += 1
            st.evaluations += 1
            st.state(('subclass', mode, str(a), form), nontrivial=a != 0)
            try:
                r, err = f(), None
            except Exception as exc:
                r, err = None, exc
            exp = O.round_to(want, q, mode)
            rcls = Money if unit is eur else Coin
            if err is not None or type(r) is not rcls or r.unit is not unit \
                    or O.fr(r.amount) != exp:
                shown = repr(r) if err is None else repr(err)
                st.violation(f'C10:money-subclass:{form}',
                             f"[{mode}] {form} with {a} and a rate between "
                             "currencies of a sub-class of Money (BTC, ETH) "
                             f"or of Money (EUR): {shown}, "
                             f"expected {rcls.__name__} {exp} {unit.symbol}",
                             {'subclass': mode})
    return st


def part_xref(mask):
    """Money/Mass declared with an explicit reference unit symbol"""
    st = Stats()
    w, declared = build_compound(mask, 'mass-xref')
    for order in ('p*m', 'm*p'):
        for psym in declared:
            st.paths += 1
            st.state(('xref', mask, psym, order), nontrivial=True)
            res = run_price_times_mass(w, psym, 'kg', '1745/1000', order, st)
            for sig, msg in res:
                st.violation(sig + ':explicit-ref-unit', msg,
                             {'xref': mask, 'price_mass': [psym, order]})
    for s1 in declared:
        for s2 in declared:
            c1 = [x for x, e in w.um[s1].udim if x in CUR]
            c2 = [x for x, e in w.um[s2].udim if x in CUR]
            if c1 != c2:
                st.paths += 1
                st.transitions += 4
                st.evaluations += 4
                for sig, msg in run_xref_mixing(w, s1, s2):
                    st.violation(sig, msg, {'xref': mask,
                                            'mixing': [s1, s2]})
    return st


@guarded('C10')
def run_identity_rate(w, psym, c):
    """the rate 1 between a currency and itself (a converter reports it):
    the same rules apply -- the price's currency must match, the quantity
    must involve money; a matching price is returned unchanged"""
    from datetime import date
    from quantity.money import MoneyConverter
    Q = w.q
    conv = MoneyConverter(cur('EUR'), lambda: date(2020, 1, 1))
    ident = conv.get_rate(cur(c), cur(c))
    u = w.units[psym]
    p = u.qty_cls(F(7, 4), u)
    pc = [s for s, e in w.um[psym].udim if s in CUR and e > 0]
    out = []
    for form, f in (('p*r', lambda: p * ident), ('r*p', lambda: ident * p),
                    ('p/r', lambda: p / ident)):
        try:
            res, err = f(), None
        except Exception as exc:
            res, err = None, exc
        what = f"{form} with the identity rate {c}/{c}: ({p!r})"
        shown = repr(res) if err is None else repr(err)
        if pc == [c]:
            if err is not None or type(res) is not type(p) or \
                    res.unit is not u or O.fr(res.amount) != F(7, 4):
                out.append((f'C10:identity-rate:{form}:value',
                            f"{what} = {shown}, "
                            "expected the price unchanged"))
        elif not isinstance(err, (Q.QuantityError, ValueError)):
            out.append((f'C10:identity-rate:{form}:mismatch',
                        f"{what}: expected QuantityError (currency does not "
                        "match / no money involved), got "
                        f"{shown}"))
    return out


def part_compound(p, rates):
    mask, kind = p
    st = Stats()
    w, declared = build_compound(mask, kind)
    for s1 in declared:
        for s2 in declared:
            c1 = [x for x, e in w.um[s1].udim if x in CUR]
            c2 = [x for x, e in w.um[s2].udim if x in CUR]
            if c1 != c2:
                st.paths += 1
                st.transitions += 4
                st.evaluations += 4
                for sig, msg in run_xref_mixing(w, s1, s2, 'C10:price-units'):
                    st.violation(sig, msg, {'mixing': [mask, kind, s1, s2]})
    for psym in list(declared) + ['kg', 'EUR', 'USD']:
        for c in ('EUR', 'USD'):
            st.paths += 1
            st.transitions += 3
            st.evaluations += 3
            for sig, msg in run_identity_rate(w, psym, c):
                st.violation(sig, msg, {'identity': [mask, kind, psym, c]})
    subjects = list(declared) + ['kg', 'EUR']
    if kind == 'mass':
        for order in ('p*m', 'm*p'):
            for msym in ('kg', 'g'):
                for psym in declared:       # one currency after the other
                    st.paths += 1
                    for sig, msg in run_price_times_mass(
                            w, psym, msym, '1745/1000', order, st):
                        st.violation(sig, msg, {'price_mass': [
                            mask, psym, msym, '1745/1000', order]})
    for psym in subjects:
        for a in (F(1745, 100), F(-1, 3), F(10 ** 6) + F(1, 8)):
            for uc, tc, v in rates:
                for form in ('p*r', 'r*p', 'p/r'):
                    st.paths += 1
                    st.state((kind, mask, psym, uc, tc, form),
                             nontrivial=psym in declared)
                    if psym == 'EUR':
                        continue   # plain money: covered by part_money
                    for sig, msg in run_compound(w, psym, str(a), uc, tc, v,
                                                 form, st):
                        st.violation(sig, msg, {
                            'compound': [mask, kind, psym, str(a), uc, tc, v,
                                         form]})
    return st


def replay_price_mass(case):
    mask, psym, msym, a, order = case['price_mass']
    w, declared = build_compound(mask, 'mass')
    out = []
    # the whole sequence up to the failing step is the case
    for o in ('p*m', 'm*p'):
        for m in ('kg', 'g'):
            for ps in declared:
                out = run_price_times_mass(w, ps, m, a, o)
                if (o, m, ps) == (order, msym, psym):
                    return out
    return out


def replay(case):
    if 'subclass' in case:
        from ..hist import fork_call
        st = fork_call(part_subclass, case['subclass'])
        return [(sig, msg) for sig, (n, msg, cs) in st.viol.items()]
    if 'mixing' in case and 'xref' not in case:
        mask, kind, s1, s2 = case['mixing']
        w, declared = build_compound(mask, kind)
        return run_xref_mixing(w, s1, s2, 'C10:price-units')
    if 'identity' in case:
        mask, kind, psym, c = case['identity']
        w, declared = build_compound(mask, kind)
        return run_identity_rate(w, psym, c)
    if 'xref' in case:
        st = part_xref(case['xref'])
        return [(sig, msg) for sig, (n, msg, cs) in st.viol.items()]
    if 'price_mass' in case:
        return replay_price_mass(case)
    Money = money()
    if 'money' in case:
        register_all()
        return run_money(*case['money'])
    mask, kind, psym, a, uc, tc, v, form = case['compound']
    w, declared = build_compound(mask, kind)
    return run_compound(w, psym, a, uc, tc, v, form)


def run(tier, seed):
    total = Stats()
    rates = rates_for(tier)
    modes = list(O.MODES)      # cheap enough for every tier
    parts = [(c, m) for c in CUR for m in modes]
    total.merge(pmap(part_money, parts, (rates,), fresh=True))
    cparts = [(mask, 'mass') for mask in range(16)]
    cparts += [(mask, k) for mask in (0, 1, 3, 6, 15)
               for k in ('length', 'dur2')]
    cparts += [(mask, 'mh') for mask in (1, 3, 7)]
    crates = [r for r in rates if r[0] in ('EUR', 'USD', 'JPY')
              and r[1] in ('EUR', 'USD', 'JPY')][::2 if tier == 'quick'
                                                  else 1]
    total.merge(pmap(part_compound, cparts, (crates,), fresh=True))
    total.merge(pmap(part_xref, [3, 5, 10, 15], fresh=True))
    total.merge(pmap(part_subclass, ['ROUND_HALF_EVEN', 'ROUND_FLOOR',
                                     'ROUND_UP'], fresh=True))
    total.sample({'money': ['EUR', '527/100', 'EUR', 'JPY', '150', 'm*r',
                            modes[1]]})
    total.sample({'compound': [5, 'mass', 'EUR/kg', '1745/100', 'EUR', 'USD',
                               '11/10', 'p*r'],
                  'meaning': 'EUR/kg and EUR/g declared, USD/* missing'})
    total.extra['modes'] = modes
    total.extra['rates'] = len(rates)
    return total, dict(
        rule=f"4 currencies x 10 amounts x {len(rates)} rates (6 currency "
             f"pairs x values) x {{m*r, r*m, m/r}} x {len(modes)} default "
             "modes, plus for every matching (rate, operation) the amounts "
             "whose exact result is a tie or nearest to a tie in target "
             "quanta (solved by modular inverse, both signs); compound: Money/Mass with each of the 16 subsets of "
             "{EUR,USD}x{kg,g} units declared, Money/Length and "
             "Money/Duration^2 with 5 subsets, x 3 amounts x rates x "
             "{p*r, r*p, p/r}, plus non-money quantities, plus price x mass "
             "for every declared price unit in sequence (the money must be "
             "in the price's own currency). non-trivial = "
             "non-zero amount / declared price unit",
        level_text="bounded exhaustive enumeration; oracle = exact product "
                   "rounded once / exact scaling with three-valued unit "
                   "oracle",
        assumptions=["three-valued oracle for differently scaled target "
                     "units (DESIGN 4/C10)"])
