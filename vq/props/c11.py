"""C11 Money converter yields the right rate for every update history.

Engine H (per object): every sequence of update events up to the depth bound
is replayed on a fresh MoneyConverter; after the last step of every history
all (currency pair, effective date) lookups are compared with a rate-table
model (dict).  No pruning; the lookup fingerprint only counts distinct states.
"""
import itertools
from datetime import date, datetime
from fractions import Fraction as F

from .. import oracle as O
from ..core import Stats, guarded, pmap, h64
from . import c09

CUR = ['EUR', 'USD', 'JPY', 'TND']          # EUR = base, TND never quoted
DATES = ['2020-03-15', '2020-03-16', '2020-04-01', '2021-01-01',
         '2020-03-15T17:45', None]
DEFAULT_DATES = ['2020-03-15', '2021-01-01']

VALIDITIES = {
    'none': None, 'y2020': 2020, 'y2020s': '2020', 'y2021': 2021,
    'm03': (2020, 3), 'm03s': '2020-03', 'm04': (2020, 4),
    'd15': date(2020, 3, 15), 'd15s': '2020-03-15', 'd16': date(2020, 3, 16),
    'bad13': '2020-13', 'badx': 'x', 'badt13': (2020, 13), 'badf': 1.5,
    'bad4': '2020-03-15-01', 'bady0': 0,
}
from collections import namedtuple      # noqa: E402
YearMonth = namedtuple('YearMonth', 'year month')
VALIDITIES['m03nt'] = YearMonth(2020, 3)        # a tuple subclass
VALIDITIES['m03t3'] = (2020, 3, 15)             # more than two entries
VALIDITIES['m03ss'] = ('2020', '03')            # documented: two strings
VALIDITIES['bad13ss'] = ('2020', '13')


class Year(int):
    """an int sub-class (like an IntEnum member)"""


VALIDITIES['y2020sub'] = Year(2020)
VALIDITIES['d15dt'] = datetime(2020, 3, 15, 9, 30)      # a datetime is a date
V_QUICK = ['none', 'y2020', 'y2020s', 'm03', 'd15s', 'bad13']
V_ALL = list(VALIDITIES)

SPECS = {
    'usd11': [['USD', 'D:1.1', 'i:1']],
    'usd12': [['USD', 'D:1.2', 'i:1']],
    'jpy': [['JPY', 'i:15000', 'i:100']],
    'usdstr': [['s:USD', 'i:2', 'i:1']],
    'ok+bad': [['USD', 'D:1.3', 'i:1'], ['JPY', 'i:-5', 'i:1']],
    'bad+ok': [['JPY', 'i:0', 'i:1'], ['USD', 'D:1.4', 'i:1']],
    'both': [['USD', 'D:0.9', 'i:1'], ['JPY', 'D:1.25', 'i:1']],
    'base': [['EUR', 'i:1', 'i:1']],
    # float amounts whose shortest repr is a tie at the 7th decimal while
    # the exact binary value is not
    # one currency quoted several times in one call, spelled as object, ISO
    # code, object: the last quote counts
    'usdrep': [['USD', 'D:1.1', 'i:1'], ['s:USD', 'D:1.2', 'i:1'],
               ['USD', 'D:1.3', 'i:1'], ['s:JPY', 'i:130', 'i:1'],
               ['JPY', 'i:140', 'i:1'], ['s:JPY', 'i:150', 'i:1']],
    'usdf': [['USD', 'f:1.0000005', 'i:1'], ['JPY', 'f:8.5000015', 'i:1']],
    # unit multiples that are no power of ten, rates below 1/10
    'odd5': [['USD', 'D:0.3', 'i:5'], ['JPY', 'F:2/100', 'i:25']],
    # a rate above 10**6: its inverse is below the smallest amount a rate
    # can hold, so only look-ups from the base currency can be answered
    'big': [['JPY', 'i:1250000', 'i:1'], ['USD', 'D:1.5', 'i:1']],
}
S_QUICK = ['usd11', 'jpy', 'usdstr', 'ok+bad']
S_ALL = list(SPECS)


class Reject(Exception):
    pass


def parse_validity(v):
    """-> (period, kind); raises Reject.  The update docstring's grammar."""
    if v is None:
        return None, 'none'
    if isinstance(v, bool):
        raise Reject
    if isinstance(v, int):
        if not 1 <= v <= 9999:
            raise Reject
        return int(v), 'year'
    if isinstance(v, date):
        return date(v.year, v.month, v.day), 'day'
    if isinstance(v, tuple):
        try:
            y, m = int(v[0]), int(v[1])
            date(y, m, 1)
        except Exception:
            raise Reject
        return (y, m), 'month'
    if isinstance(v, str):
        parts = v.split('-')
        try:
            if len(parts) == 3:
                return date.fromisoformat(v), 'day'
            if len(parts) == 2:
                d = date.fromisoformat(v + '-01')
                return (d.year, d.month), 'month'
            if len(parts) == 1:
                return date.fromisoformat(v + '-01-01').year, 'year'
        except ValueError:
            raise Reject
    raise Reject


def period_of(d, kind):
    return {'none': None, 'year': d.year, 'month': (d.year, d.month),
            'day': date(d.year, d.month, d.day)}[kind]


class Model:
    def __init__(self):
        self.kind = None
        self.table = {}

    def update(self, vname, sname):
        period, kind = parse_validity(VALIDITIES[vname])
        if self.kind is not None and kind != self.kind:
            raise Reject
        new = {}
        for c, amount, multiple in SPECS[sname]:
            code = c[2:] if c.startswith('s:') else c
            a, m = O.val(amount), O.val(multiple)
            if code == 'EUR' or a < F(1, 10 ** 6) or m < 1 or \
                    m.denominator != 1:
                raise Reject
            new[(period, code)] = a / m
        self.kind = kind
        self.table.update(new)

    def rate(self, uc, tc, d):
        """-> ('one',) | ('none',) | ('rate', true value, exactness note)"""
        if uc == tc:
            return ('one',)
        if self.kind is None:
            return ('none',)
        p = period_of(d, self.kind)
        if uc == 'EUR':
            r = self.table.get((p, tc))
            return ('none',) if r is None else ('base', r)
        if tc == 'EUR':
            r = self.table.get((p, uc))
            return ('none',) if r is None else ('inverse', r)
        r1, r2 = self.table.get((p, uc)), self.table.get((p, tc))
        if r1 is None or r2 is None:
            return ('none',)
        return ('cross', r1, r2)


def money():
    from quantity.money import Money
    return Money


def spec_objs(sname):
    Money = money()
    out = []
    for c, amount, multiple in SPECS[sname]:
        cur = c[2:] if c.startswith('s:') else Money.get_unit_by_symbol(c)
        out.append((cur, O.dec(amount), O.dec(multiple)))
    return out


# rate_specs is documented as an Iterable: one-shot iterables count
FORMS = {'list': list, 'tuple': tuple, 'iter': iter,
         'gen': lambda specs: (x for x in specs),
         'map': lambda specs: map(tuple, specs)}
F_ALL = ['list', 'tuple', 'iter', 'gen', 'map']


class Cell:
    """the configured callable; a callable object may well be falsy (a
    queue of pending value dates that is empty right now), it still is the
    configured callable"""

    def __init__(self, d):
        self.d = d

    def __len__(self):
        return 0

    def __call__(self):
        return self.d


def near(obj, true_rate):
    """normal form + accuracy of a reported rate; -> list of problems"""
    probs = c09.normal_form(obj, true_rate, repr(obj), 'nf')
    return [m for s, m in probs]


@guarded('C11')
def run_history(hist, st=None):
    """hist: list of [validity name, spec name]"""
    from quantity.money import MoneyConverter, ExchangeRate
    Money = money()
    Q = __import__('quantity')
    cell = Cell(date.fromisoformat(DEFAULT_DATES[0]))
    conv = MoneyConverter(Money.get_unit_by_symbol('EUR'), cell)
    model = Model()
    out = []
    prev_fp = None
    results = []
    for i, ev in enumerate(hist):
        vn, sn = ev[0], ev[1]
        form = ev[2] if len(ev) > 2 else 'list'
        last = i == len(hist) - 1
        if last:
            prev_fp = lookups(conv, model, cell, None, st)[1]
        try:
            model.update(vn, sn)
            want = 'ok'
        except Reject:
            want = 'reject'
        try:
            conv.update(VALIDITIES[vn], FORMS[form](spec_objs(sn)))
            got = 'ok'
        except (ValueError, TypeError) as exc:
            got = 'reject'
        if st is not None:
            st.transitions += 1
            st.outcomes[f'update-{want}'] += 1
        if got != want:
            if vn == 'bady0':
                return out    # admissible either way (see DESIGN)
            earlier_rejected = any(r == 'reject' for r in results)
            vkind = 'invalid-validity' if vn.startswith('bad') else \
                'valid-validity'
            out.append((f'C11:update:{want}-expected:{vkind}'
                        + (':after-rejected-update' if earlier_rejected
                           else ''),
                        f"update #{i + 1} {vn},{sn} of {hist}: library "
                        f"{got}, model {want}"))
            return out
        results.append(want)
    probs, fp = lookups(conv, model, cell, hist, st)
    if 'reject' in results:
        probs = [(sig + ':after-rejected-update', msg) for sig, msg in probs]
    out += probs
    if hist and want == 'reject' and prev_fp is not None and fp != prev_fp \
            and not probs:
        out.append(('C11:rejected-update-changed-converter',
                    f"{hist}: lookups differ before/after the rejected "
                    "update"))
    if st is not None:
        st.state(fp, nontrivial=bool(model.table))
    return out


def lookups(conv, model, cell, hist, st):
    Money = money()
    Q = __import__('quantity')
    out = []
    fp = []
    for dflt in DEFAULT_DATES:
        cell.d = date.fromisoformat(dflt)
        for ds in DATES:
            if ds is not None and dflt != DEFAULT_DATES[0]:
                continue        # explicit dates do not depend on the default
            d = None if ds is None else datetime.fromisoformat(ds) \
                if 'T' in ds else date.fromisoformat(ds)
            eff = cell.d if d is None else d
            for uc in CUR:
                for tc in CUR:
                    u, t = (Money.get_unit_by_symbol(uc),
                            Money.get_unit_by_symbol(tc))
                    exp = model.rate(uc, tc, eff)
                    try:
                        r, err = conv.get_rate(u, t, d), None
                    except Exception as exc:
                        r, err = None, exc
                    if st is not None and hist is not None:
                        st.transitions += 1
                        st.evaluations += 1
                    where = f"after {hist}: get_rate({uc}, {tc}, {ds})"
                    tag = f'C11:get_rate:{exp[0]}'
                    if err is not None:
                        fp.append(('exc', type(err).__name__))
                        if isinstance(err, ValueError) and (
                                (exp[0] == 'inverse'
                                 and 1 / exp[1] < F(1, 10 ** 6))
                                or (exp[0] == 'cross'
                                    and exp[2] / exp[1] < F(1, 10 ** 6))):
                            # a rate below 10**-6 cannot be represented
                            # (C09): refusing it is the known limit
                            continue
                        if hist is not None:
                            out.append((tag + ':raises', f"{where} raised "
                                        f"{type(err).__name__}: {err}"))
                        continue
                    if r is None:
                        fp.append(None)
                        if exp[0] != 'none' and hist is not None:
                            out.append((tag + ':missing', f"{where} is None, "
                                        f"model says {exp}"))
                        continue
                    rv = O.fr(r.rate)
                    fp.append((r.unit_currency.symbol, r.term_currency.symbol,
                               rv))
                    if hist is None:
                        continue
                    if exp[0] == 'none':
                        out.append((tag + ':spurious', f"{where} = {r!r}, "
                                    "model has no applicable entry"))
                        continue
                    if r.unit_currency is not u or r.term_currency is not t:
                        out.append((tag + ':currencies', f"{where} = {r!r}"))
                        continue
                    if exp[0] == 'one':
                        if rv != 1:
                            out.append((tag, f"{where} = {r!r}, expected "
                                        "rate 1"))
                            continue
                        # the reported rate is a rate like any other: it
                        # can be inverted (C09), the inverse is rate 1 too
                        try:
                            inv = r.inverted()
                            ok = O.fr(inv.rate) == 1 and \
                                inv.unit_currency is u and \
                                inv.term_currency is u and \
                                O.fr(r.rate) * O.fr(r.inverse_rate) == 1
                        except Exception as exc:
                            inv, ok = exc, False
                        if not ok:
                            out.append((tag + ':inverted', f"{where} = "
                                        f"{r!r}; inverted(): {inv!r}"))
                        continue
                    if exp[0] == 'base':
                        true = exp[1]
                    elif exp[0] == 'inverse':
                        stored = stored_rate(exp[1])
                        true = 1 / stored
                    else:
                        true = stored_rate(exp[2]) / stored_rate(exp[1])
                    probs = near(r, true)
                    if probs:
                        out.append((tag + ':value', f"{where} = {r!r}; "
                                    f"{probs[0]}"))
                        continue
                    # calling the converter multiplies by exactly that rate
                    m = Money(F(1234, 100), u)
                    try:
                        got = conv(m, t, d)
                    except Exception as exc:
                        out.append(('C11:call:raises', f"{where}: conv() "
                                    f"raised {type(exc).__name__}"))
                        continue
                    if O.fr(got) != rv * O.fr(m.amount):
                        out.append(('C11:call:value', f"{where}: conv() = "
                                    f"{got!r}, rate {rv}"))
            # conv() without rate -> UnitConversionError
    return out, h64(tuple(fp))


@guarded('C11')
def run_mode_switch(hist):
    """a lookup must not depend on lookups made earlier under another
    default rounding mode: converter A answers all lookups under
    ROUND_HALF_EVEN, then again under `mode`; its twin B (same updates, never
    asked before) answers under `mode` only"""
    from quantity.money import MoneyConverter
    Money = money()
    out = []
    for mode in ('ROUND_UP', 'ROUND_DOWN'):
        fps = []
        for warm in (True, False):
            O.set_mode('ROUND_HALF_EVEN')
            cell = Cell(date.fromisoformat(DEFAULT_DATES[0]))
            conv = MoneyConverter(Money.get_unit_by_symbol('EUR'), cell)
            for ev in hist:
                form = ev[2] if len(ev) > 2 else 'list'
                try:
                    conv.update(VALIDITIES[ev[0]],
                                FORMS[form](spec_objs(ev[1])))
                except (ValueError, TypeError):
                    pass
            try:
                if warm:
                    lookups(conv, Model(), cell, None, None)
                O.set_mode(mode)
                fps.append(lookups(conv, Model(), cell, None, None)[1])
            finally:
                O.set_mode('ROUND_HALF_EVEN')
        if fps[0] != fps[1]:
            out.append(('C11:lookup-depends-on-earlier-lookups:mode-switch',
                        f"after {hist}: lookups under {mode} differ between "
                        "a converter that was asked before under "
                        "ROUND_HALF_EVEN and one that was not"))
    return out


def stored_rate(r):
    """the normal-form value of a spec rate r (exact for the alphabet: all
    spec rates have <= 6 significant fractional digits after scaling)"""
    M = 1
    while r * M < F(1, 10):
        M *= 10
    T = O.round_to(r * M, F(1, 10 ** 6), 'ROUND_HALF_EVEN')
    return T / M


def part(prefixes, events, depth):
    st = Stats()
    Money = money()
    for c in CUR:
        Money.register_currency(c)
    for prefix in prefixes:
        rest = depth - len(prefix)
        for n in range(0, rest + 1):
            for tail in itertools.product(events, repeat=n):
                hist = [list(e) for e in prefix] + [list(e) for e in tail]
                if n == 0 and len(prefix) > 1:
                    pass
                st.paths += 1
                for sig, msg in run_history(hist, st):
                    st.violation(sig, msg, {'history': hist})
                if len(hist) <= 2 and depth == 2:
                    st.paths += 1
                    st.evaluations += 4
                    for sig, msg in run_mode_switch(hist):
                        st.violation(sig, msg, {'history': hist,
                                                'mode_switch': True})
    return st


@guarded('C11')
def run_today(_=None):
    """default effective date without a callable: date.today"""
    from quantity.money import MoneyConverter
    Money = money()
    eur, usd = (Money.get_unit_by_symbol('EUR'),
                Money.get_unit_by_symbol('USD'))
    out = []
    y0 = date.today().year
    for validity in (None, y0):
        conv = MoneyConverter(eur)
        conv.update(validity, [(usd, O.dec('D:1.1'), 1)])
        r = conv.get_rate(eur, usd)
        if date.today().year != y0:
            return []
        if r is None or O.fr(r.rate) != F(11, 10):
            out.append(('C11:default-date:today', f"validity {validity}: "
                        f"get_rate without date = {r!r}"))
        if validity is not None:
            r2 = conv.get_rate(eur, usd, date(y0 - 1, 6, 1))
            if r2 is not None:
                out.append(('C11:default-date:today', "rate of another year "
                            f"reported: {r2!r}"))
    return out


@guarded('C11')
def run_changing_default_date(_=None):
    """the configured callable is a clock: whatever it answers, one lookup
    uses ONE effective date (a cross rate needs two entries)"""
    from quantity.money import MoneyConverter
    Money = money()
    eur, usd, jpy = (Money.get_unit_by_symbol(c)
                     for c in ('EUR', 'USD', 'JPY'))
    d1, d2 = date(2020, 3, 15), date(2020, 3, 16)

    class Clock:
        def __init__(self):
            self.n = 0

        def __call__(self):
            self.n += 1
            return d1 if self.n % 2 else d2
    out = []
    for first in (0, 1):
        clock = Clock()
        clock.n = first
        conv = MoneyConverter(eur, clock)
        conv.update(d1, [(usd, 2, 1), (jpy, 200, 1)])
        conv.update(d2, [(usd, 4, 1), (jpy, 100, 1)])
        for uc, tc, per_day in ((usd, jpy, (F(100), F(25))),
                                (jpy, usd, (F(1, 100), F(1, 25)))):
            r = conv.get_rate(uc, tc)
            if r is None or O.fr(r.rate) not in per_day:
                out.append(('C11:default-date:evaluated-twice',
                            f"daily rates {uc.symbol}->{tc.symbol} are "
                            f"{per_day[0]} on {d1} and {per_day[1]} on {d2}; "
                            "with a callable alternating between the two "
                            f"days get_rate without date gave {r!r}"))
    return out


def replay(case):
    Money = money()
    for c in CUR:
        Money.register_currency(c)
    if 'today' in case:
        return run_today()
    if 'clock' in case:
        return run_changing_default_date()
    if case.get('mode_switch'):
        return run_mode_switch(case['history'])
    return run_history(case['history'])


def run(tier, seed):
    total = Stats()
    Money = money()
    for c in CUR:
        Money.register_currency(c)
    runs = []
    if tier == 'thorough':
        v_mid = V_QUICK + ['y2021', 'm04', 'd16', 'badt13']
        s_mid = S_QUICK + ['both']
        runs.append(([(v, s) for v in V_ALL for s in S_ALL], 2))
        runs.append(([(v, s) for v in v_mid for s in s_mid], 3))
        runs.append(([(v, s) for v in V_QUICK for s in S_QUICK], 4))
    else:
        k = seed % 3
        vq = V_QUICK + [['y2021', 'm04', 'd16'][k]]
        sq = S_QUICK + [['bad+ok', 'both', 'base'][k]]
        runs.append(([(v, s) for v in vq for s in sq], 3))
        s2 = sq + ['odd5']
        runs.append(([(v, s) for v in V_ALL for s in S_ALL
                      if v in vq or s in s2], 2))
    vf, sf = ['none', 'y2020', 'm03'], ['usd11', 'usd12', 'ok+bad', 'both']
    runs.append(([(v, s_, f) for v in vf for s_ in sf for f in F_ALL],
                 3 if tier == 'thorough' else 2))
    for events, depth in runs:
        # partition by the first event
        prefixes = [[e] for e in events]
        chunks = [prefixes[i::32] for i in range(32)]
        total.merge(pmap(part, [c for c in chunks if c], (events, depth)))
        total.paths += 1
        for sig, msg in run_history([], total):
            total.violation(sig, msg, {'history': []})
    for sig, msg in run_today():
        total.violation(sig, msg, {'today': True})
    total.paths += 1
    total.transitions += 4
    total.evaluations += 4
    for sig, msg in run_changing_default_date():
        total.violation(sig, msg, {'clock': True})
    total.sample({'history': [['y2020', 'usd11'], ['m03', 'jpy'],
                              ['y2020s', 'usdstr']],
                  'meaning': 'yearly USD rate, rejected monthly update, USD '
                             'rate replaced via string currency code; then '
                             '16 pairs x 5 dates x 2 default dates'})
    total.extra['event_alphabets'] = [(len(e), d) for e, d in runs]
    total.extra['lookups_per_state'] = 16 * (len(DATES) + 1)
    return total, dict(
        rule="events = update(validity, spec list[, container form of the "
             "Iterable: list, tuple, iterator, generator, map]); alphabets and depths: "
             + ', '.join(f"{len(e)} events to depth {d}" for e, d in runs)
             + "; every history (no pruning) is replayed on a fresh "
             "converter, then 16 ordered currency pairs x {4 explicit dates, "
             "default date under 2 settings of the callable} via get_rate "
             "and __call__. state = fingerprint of all lookup answers; "
             "non-trivial = the model table is non-empty",
        level_text="stateless exhaustive exploration of update histories "
                   "against a dict model of (period, currency) -> rate",
        assumptions=["rates are compared through the C09 normal form with "
                     "the implementation's own power-of-ten multiple",
                     "a rejected update must leave all lookups unchanged "
                     "(all-or-nothing model)"])
