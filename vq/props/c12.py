"""C12 Converter registration is last-in-first-out and restores behaviour.

Engine H, explicit-state BFS with merging: the state is the converter list
(plus the harness's stack of open with-blocks); every transition of the state
graph is executed on the real registry in a forked snapshot by replaying the
shortest history to its source state and then applying the event, with a
Python list as reference model.  In addition all histories up to a smaller
depth are executed without merging, and nested `with` programs are generated
and run for conformance.
"""
import itertools
from collections import deque
from datetime import date
from fractions import Fraction as F

from .. import oracle as O
from ..core import Stats, guarded, pmap
from ..hist import fork_call

# converter 2 holds exactly the rates of converter 0 (equal tables in two
# objects: equality of content must never stand in for identity)
RATES = ['D:1.1', 'D:1.2', 'D:1.1']
JPY_RATES = ['i:110', 'i:150', 'i:110']      # cross USD->JPY: 100, 125, 100
KNOWS_TND = (0, 2)
MAX_STACK = 4


# ---------------------------------------------------------------------------
# Money

class MoneySys:
    """with extra=True: one more converter that never was updated (it holds
    no rate: while it is the most recent one nothing converts), and a
    sub-class of Money whose registry is a stack of its own"""

    def __init__(self, n, extra=False):
        from quantity.money import Money, MoneyConverter
        self.Money = Money
        self.extra = extra
        self.eur = Money.register_currency('EUR')
        self.usd = Money.register_currency('USD')
        self.jpy = Money.register_currency('JPY')
        self.tnd = Money.register_currency('TND')
        self.convs = []
        for i in range(n):
            c = MoneyConverter(self.eur, lambda: date(2020, 3, 15))
            specs = [(self.usd, O.dec(RATES[i]), 1),
                     (self.jpy, O.dec(JPY_RATES[i]), 1)]
            if i in KNOWS_TND:      # converter 1 does not know TND
                specs.append((self.tnd, O.dec('D:3.2'), 1))
            c.update(None, specs)
            self.convs.append(c)
        self.empty = None
        self.Sub = None
        self.substack = []
        if extra:
            self.empty = n
            self.convs.append(MoneyConverter(self.eur,
                                             lambda: date(2020, 3, 15)))

            class Voucher(Money):
                pass
            self.Sub = Voucher
        self.stack = []        # model: indices, last = most recent
        self.open = []         # harness: open with-blocks (indices)

    def key(self):
        if self.extra:
            return (tuple(self.stack), tuple(self.open),
                    tuple(self.substack))
        return (tuple(self.stack), tuple(self.open))

    def apply(self, ev):
        """-> list of (sig, msg)"""
        Money = self.Money
        kind = ev[0]
        out = []
        if kind == 'reg':
            Money.register_converter(self.convs[ev[1]])
            self.stack.append(ev[1])
        elif kind == 'enter':
            try:
                r = self.convs[ev[1]].__enter__()
            except Exception as exc:
                # the block is not entered (and never left): the converter
                # must not be active
                out.append(('C12:money:enter-raised', f"entering the block "
                            f"of c{ev[1]} raised {type(exc).__name__}: "
                            f"{exc}"))
                return out + self.probe()
            if r is not self.convs[ev[1]]:
                out.append(('C12:money:enter-value', f"__enter__ returned "
                            f"{type(r).__name__}"))
            self.stack.append(ev[1])
            self.open.append(ev[1])
        elif kind == 'regsub':
            self.Sub.register_converter(self.convs[ev[1]])
            self.substack.append(ev[1])
        elif kind == 'unregsub':
            i = ev[1]
            ok = bool(self.substack) and self.substack[-1] == i
            try:
                self.Sub.remove_converter(self.convs[i])
                raised = False
            except Exception:
                raised = True
            if ok:
                self.substack.pop()
                if raised:
                    out.append(('C12:money:subclass:unregister-top-raised',
                                f"unregistering the most recent converter "
                                f"c{i} of the Money sub-class raised"))
            elif not raised:
                out.append(('C12:money:subclass:unregister-not-top',
                            f"unregistering c{i}, which is not the most "
                            "recent converter of the Money sub-class, did "
                            "not raise"))
        elif kind == 'unreg':
            i = ev[1]
            ok = bool(self.stack) and self.stack[-1] == i
            try:
                Money.remove_converter(self.convs[i])
                raised = False
            except Exception:
                raised = True
            if ok:
                self.stack.pop()
                if raised:
                    out.append(('C12:money:unregister-top-raised',
                                f"unregistering the most recent converter "
                                f"c{i} raised"))
            elif not raised:
                out.append(('C12:money:unregister-not-top',
                            f"unregistering c{i}, which is not the most "
                            "recent converter, did not raise"))
        elif kind in ('leave', 'leave_exc'):
            j = self.open.pop()
            ok = bool(self.stack) and self.stack[-1] == j
            try:
                if kind == 'leave':
                    r = self.convs[j].__exit__(None, None, None)
                else:
                    exc = RuntimeError('leaving by exception')
                    r = self.convs[j].__exit__(RuntimeError, exc, None)
                raised = False
            except Exception:
                raised, r = True, None
            if ok:
                self.stack.pop()
                if raised:
                    out.append(('C12:money:exit-raised', f"leaving the block "
                                f"of c{j} (most recent) raised"))
            elif not raised:
                out.append(('C12:money:exit-not-top', f"leaving the block of "
                            f"c{j} although it is not the most recent "
                            "converter did not raise"))
            if r:
                out.append(('C12:money:exit-swallows', "__exit__ returned a "
                            "true value (would swallow the exception)"))
        else:
            raise ValueError(ev)
        return out + self.probe()

    def probe(self):
        import quantity
        Money = self.Money
        out = []
        got = list(Money.registered_converters())
        want = [self.convs[i] for i in reversed(self.stack)]
        if len(got) != len(want) or any(a is not b
                                        for a, b in zip(got, want)):
            idx = [self.convs.index(c) if c in self.convs else '?'
                   for c in got]
            out.append(('C12:money:registered-list',
                        f"registered_converters() = {idx}, model "
                        f"{list(reversed(self.stack))}"))
        if self.Sub is not None:
            got = list(self.Sub.registered_converters())
            want = [self.convs[i] for i in reversed(self.substack)]
            if len(got) != len(want) or any(a is not b
                                            for a, b in zip(got, want)):
                idx = [self.convs.index(c) if c in self.convs else '?'
                       for c in got]
                out.append(('C12:money:subclass:registered-list',
                            "registered_converters() of the Money sub-class "
                            f"= {idx}, model "
                            f"{list(reversed(self.substack))}"))
        if self.stack and self.stack[-1] == self.empty:
            # the most recent converter decides, and it has no rate at all
            for a, b in ((self.eur, self.usd), (self.usd, self.jpy),
                         (self.eur, self.tnd), (self.usd, self.eur)):
                try:
                    r = Money(F(10), a).convert(b)
                    out.append(('C12:money:older-converter-answers',
                                f"10 {a.symbol} -> {b.symbol} = {r!r} "
                                "although the most recent converter holds "
                                "no rate"))
                except quantity.UnitConversionError:
                    pass
                except Exception as exc:
                    out.append(('C12:money:convert-unknown',
                                f"{a.symbol} -> {b.symbol}: "
                                f"{type(exc).__name__}"))
            return out
        # a quantity that was itself the result of a conversion under an
        # earlier state of the registry is converted back under the current
        # one
        kept = getattr(self, 'kept', None)
        if kept is not None:
            try:
                back, berr = kept.convert(self.eur), None
            except Exception as exc:
                back, berr = None, exc
            if not self.stack:
                if not isinstance(berr, quantity.UnitConversionError):
                    out.append(('C12:money:converted-quantity-remembers',
                                f"{kept!r} (result of an earlier conversion) "
                                "-> EUR with no active converter: "
                                f"{type(berr).__name__ if berr else repr(back)}"))
            else:
                want_back = O.round_to(O.fr(kept.amount)
                                       / O.val(RATES[self.stack[-1]]),
                                       F(1, 100), 'ROUND_HALF_EVEN')
                if berr is not None or O.fr(back.amount) != want_back:
                    out.append(('C12:money:converted-quantity-remembers',
                                f"{kept!r} (result of an earlier conversion) "
                                f"-> EUR = "
                                f"{repr(back) if berr is None else type(berr).__name__}"
                                f", most recent converter c{self.stack[-1]} "
                                f"gives {want_back}"))
        # quotients across currencies: the units divided as such (refused
        # or not, it must leave nothing behind), then amounts
        for f in (lambda: self.eur / self.usd,
                  lambda: self.eur / Money(F(4), self.usd),
                  lambda: Money(F(10), self.eur) / self.usd):
            try:
                f()
            except Exception:
                pass
        try:
            dq, derr = Money(F(10), self.eur) / Money(F(4), self.usd), None
        except Exception as exc:
            dq, derr = None, exc
        if not self.stack:
            if not isinstance(derr, quantity.UnitConversionError):
                out.append(('C12:money:quotient-without-converter',
                            "10 EUR / 4 USD with no active converter: "
                            f"{type(derr).__name__ if derr else repr(dq)}"))
        else:
            # 4 USD are converted into EUR by the inverted rate, which is
            # itself a rate in normal form (C09/C11)
            from .c11 import stored_rate
            want_q = F(10) / (F(4) * stored_rate(
                1 / O.val(RATES[self.stack[-1]])))
            if derr is not None or isinstance(dq, float) or \
                    O.fr(dq) != want_q:
                out.append(('C12:money:quotient-uses-most-recent',
                            f"10 EUR / 4 USD = "
                            f"{repr(dq) if derr is None else type(derr).__name__}"
                            f", most recent converter c{self.stack[-1]} "
                            f"gives {want_q}"))
        m = Money(F(10), self.eur)
        try:
            r, err = m.convert(self.usd), None
        except Exception as exc:
            r, err = None, exc
        if err is None:
            self.kept = r
        if not self.stack:
            if not isinstance(err, quantity.UnitConversionError):
                out.append(('C12:money:convert-without-converter',
                            "10 EUR -> USD with no active converter: "
                            f"{type(err).__name__ if err else repr(r)}"))
        else:
            want_amt = F(10) * O.val(RATES[self.stack[-1]])
            if err is not None or O.fr(r.amount) != want_amt or \
                    r.unit is not self.usd:
                out.append(('C12:money:convert-uses-most-recent',
                            f"10 EUR -> USD = "
                            f"{repr(r) if err is None else type(err).__name__}, "
                            f"most recent converter c{self.stack[-1]} gives "
                            f"{want_amt}"))
            # a cross rate (neither currency is the base currency)
            cross = O.val(JPY_RATES[self.stack[-1]]) / \
                O.val(RATES[self.stack[-1]])
            try:
                r2 = Money(F(10), self.usd).convert(self.jpy)
                if O.fr(r2.amount) != 10 * cross:
                    out.append(('C12:money:cross-uses-most-recent',
                                f"10 USD -> JPY = {r2!r}, most recent "
                                f"converter c{self.stack[-1]} gives "
                                f"{10 * cross}"))
            except Exception as exc:
                out.append(('C12:money:cross-uses-most-recent',
                            f"10 USD -> JPY: {type(exc).__name__}: {exc}"))
            # a pair only converter c0 can answer: the most recent active
            # converter decides, also when it has no rate
            try:
                r3 = m.convert(self.tnd)
                if self.stack[-1] not in KNOWS_TND:
                    out.append(('C12:money:older-converter-answers',
                                f"10 EUR -> TND = {r3!r} although the most "
                                f"recent converter c{self.stack[-1]} has no "
                                "TND rate"))
                elif O.fr(r3.amount) != 32:
                    out.append(('C12:money:convert-uses-most-recent',
                                f"10 EUR -> TND = {r3!r}, expected 32"))
            except quantity.UnitConversionError:
                if self.stack[-1] in KNOWS_TND:
                    out.append(('C12:money:convert-uses-most-recent',
                                "10 EUR -> TND raised although c0 is the "
                                "most recent converter"))
            except Exception as exc:
                out.append(('C12:money:convert-unknown',
                            f"EUR -> TND: {type(exc).__name__}"))
        return out

    def enabled(self):
        evs = []
        for i in range(len(self.convs)):
            if len(self.stack) < MAX_STACK:
                evs.append(['reg', i])
                evs.append(['enter', i])
            evs.append(['unreg', i])
            if self.Sub is not None:
                if len(self.substack) < 2:
                    evs.append(['regsub', i])
                evs.append(['unregsub', i])
        if self.open:
            evs.append(['leave'])
            evs.append(['leave_exc'])
        return evs


# ---------------------------------------------------------------------------
# generic converters on a user type without reference unit

class GenericSys:
    PROBE = F(4)
    # asked in this order: a converter that declines for the large amount
    # (an older one answers) must still be the first to be asked for the
    # small one
    PROBES = [F(250), F(4)]

    def __init__(self, n):
        import quantity
        Q = quantity
        self.cls = Q.QuantityMeta('Gauge', (Q.Quantity,), {})
        self.units = [self.cls.new_unit(s) for s in ('g1', 'g2', 'g3')]
        g1, g2, g3 = self.units
        table = [
            {(0, 1): lambda x: 2 * x, (1, 0): lambda x: x / 2},
            {(0, 1): lambda x: 3 * x - 12 if x < 100 else None,
             (0, 2): lambda x: x + 1},
            {(a, b): (lambda x: 10 * x) for a in range(3) for b in range(3)
             if a != b},
            {},
        ]
        self.tables = table[:n]
        units = self.units

        class Holder:
            def __init__(self, t):
                self.t = t

            def convert(self, qty, to_unit):
                k = (units.index(qty.unit), units.index(to_unit))
                g = self.t.get(k)
                return None if g is None else g(qty.amount)
        self.holders = [Holder(t) for t in self.tables]
        self.lst = []

    def fn(self, i):
        """converter i: a plain function for even i, a *fresh bound method
        object* (equal, not identical, on every access) for odd i"""
        if i % 2:
            return self.holders[i].convert
        if not hasattr(self, '_plain'):
            self._plain = {}
        if i not in self._plain:
            h = self.holders[i]
            self._plain[i] = lambda qty, to_unit, h=h: h.convert(qty, to_unit)
        return self._plain[i]

    def answer(self, i, a, b, x=None):
        g = self.tables[i].get((a, b))
        return None if g is None else g(self.PROBE if x is None else x)

    def key(self):
        return (tuple(self.lst),)

    def enabled(self):
        evs = []
        for i in range(len(self.holders)):
            evs += [['reg', i], ['rem', i]]
        return evs

    def apply(self, ev):
        out = []
        kind, i = ev
        if kind == 'reg':
            self.cls.register_converter(self.fn(i))
            if i not in self.lst:
                self.lst.append(i)
        else:
            try:
                self.cls.remove_converter(self.fn(i))
                raised = False
            except ValueError:
                raised = True
            except Exception as exc:
                raised = True
                out.append(('C12:generic:remove-error-class',
                            f"remove of unregistered converter raised "
                            f"{type(exc).__name__}"))
            if i in self.lst:
                self.lst.remove(i)
                if raised:
                    out.append(('C12:generic:remove-raised',
                                f"removing registered converter f{i} "
                                "raised"))
            elif not raised:
                out.append(('C12:generic:remove-missing', f"removing f{i}, "
                            "which is not registered, did not raise"))
        return out + self.probe()

    def probe(self):
        import quantity
        out = []
        got = list(self.cls.registered_converters())
        want = [self.fn(i) for i in reversed(self.lst)]
        if len(got) != len(want) or any(
                (a is not b) if getattr(self, 'BY_IDENTITY', False)
                else (a != b) for a, b in zip(got, want)):
            out.append(('C12:generic:registered-list',
                        f"registered_converters() has {len(got)} entries, "
                        f"model {list(reversed(self.lst))}"))
        for x in self.PROBES:
            for a in range(3):
                for b in range(3):
                    if a == b:
                        continue
                    exp = None
                    for i in reversed(self.lst):
                        exp = self.answer(i, a, b, x)
                        if exp is not None:
                            break
                    q = self.cls(x, self.units[a])
                    try:
                        r, err = q.convert(self.units[b]), None
                    except Exception as exc:
                        r, err = None, exc
                    if exp is None:
                        if not isinstance(err, quantity.UnitConversionError):
                            out.append(('C12:generic:no-converter',
                                        f"{x} g{a + 1}->g{b + 1} with "
                                        f"{self.lst}: "
                                        f"{type(err).__name__ if err else repr(r)}"))
                    elif err is not None or O.fr(r.amount) != exp:
                        out.append(('C12:generic:first-non-none-wins',
                                    f"{x} g{a + 1} -> g{b + 1} with "
                                    f"converters {self.lst} (most recent "
                                    f"last) = "
                                    f"{repr(r) if err is None else type(err).__name__}"
                                    f", expected {exp}"))
        return out


class TableSys(GenericSys):
    """the same registry walk with quantity.converter.TableConverter
    instances (factor, offset rows; a missing direction is answered by
    inverting the other one)"""
    ROWS = [
        {(0, 1): (2, 0)},
        {(0, 1): (3, -12), (0, 2): (1, 1)},
        # the same table as the first one, in another object (and form):
        # equal content must not make two converters one
        {(0, 1): (F(2), F(0))},
        {(a, b): (10, 0) for a in range(3) for b in range(3) if a != b},
        {},
    ]
    BY_IDENTITY = True

    def __init__(self, n):
        GenericSys.__init__(self, n)
        from quantity.converter import TableConverter
        u = self.units
        self.rows = self.ROWS[:n]
        self.convs = []
        from quantity.converter import Converter

        class Forward(Converter):
            """a hand-written converter: answers the tabulated direction
            and leaves everything else to the base class"""

            def __init__(self, rows):
                self.rows = rows

            def _get_factor(self, qty, to_unit):
                fo = self.rows.get((u.index(qty.unit), u.index(to_unit)))
                if fo is None:
                    return super()._get_factor(qty, to_unit)
                return qty.amount * fo[0] + fo[1]
        for i, rows in enumerate(self.rows):
            if i == 1:
                self.convs.append(Forward(rows))
            elif i % 2:
                self.convs.append(TableConverter(
                    [(u[a], u[b], f, o) for (a, b), (f, o) in rows.items()]))
            else:
                self.convs.append(TableConverter(
                    {(u[a], u[b]): fo for (a, b), fo in rows.items()}))

    def fn(self, i):
        return self.convs[i]

    def answer(self, i, a, b, x=None):
        x = self.PROBE if x is None else x
        rows = self.rows[i]
        if (a, b) in rows:
            f, o = rows[(a, b)]
            return x * f + o
        if i == 1:
            return None         # the hand-written one does not invert
        if (b, a) in rows:
            f, o = rows[(b, a)]
            return (x - o) / F(f)
        return None


# ---------------------------------------------------------------------------

def MoneySysX(n):
    return MoneySys(n, extra=True)


SYSTEMS = {'money': MoneySys, 'moneyx': MoneySysX, 'generic': GenericSys,
           'table': TableSys}


def execute(sysname, n, hist):
    """Replay a history on a fresh system (inside a fork).
    -> (violations of the LAST step, key, enabled events)"""
    s = SYSTEMS[sysname](n)
    res = s.probe() if not hist else []
    for ev in hist:
        res = s.apply(ev)
    return res, s.key(), s.enabled()


def batch(tasks, sysname, n):
    st = Stats()
    edges = []
    for hist in tasks:
        try:
            viol, key, enabled = fork_call(execute, sysname, n, hist)
        except RuntimeError as exc:
            viol, key, enabled = [(f'C12:{sysname}:unexpected-exception',
                                   str(exc).strip().splitlines()[-1])], \
                None, []
        st.transitions += 1
        st.evaluations += 1
        if key is not None:
            # observed outcome class: the converter that decides (most recent)
            st.outcomes[f"{sysname}:most-recent="
                        f"{key[0][-1] if key[0] else 'none'}"] += 1
        for sig, msg in viol:
            st.violation(sig, f"after {hist}: {msg}",
                         {'system': sysname, 'n': n, 'history': hist})
        edges.append((hist, key, enabled))
    st.extra['edges'] = edges
    return st


def bfs(sysname, n, depth, total, merge=True):
    """Explicit-state BFS; with merge=False every history is its own state."""
    viol0, key0, en0 = fork_call(execute, sysname, n, [])
    for sig, msg in viol0:
        total.violation(sig, msg, {'system': sysname, 'n': n, 'history': []})
    seen = {key0: []}
    frontier = [([], en0)]
    n_states = 1
    for level in range(depth):
        tasks = [hist + [ev] for hist, enabled in frontier for ev in enabled]
        if not tasks:
            break
        chunks = [tasks[i::64] for i in range(64)]
        nxt = []
        for chunk in [c for c in chunks if c]:
            pass
        res = _pmap_edges(chunks, sysname, n, total)
        for hist, key, enabled in res:
            if key is None:
                continue
            if merge:
                if key in seen:
                    continue
                seen[key] = hist
            n_states += 1
            total.state((sysname, n, key if merge else tuple(map(tuple,
                                                                 hist))),
                        nontrivial=len(hist) > 1)
            nxt.append((hist, enabled))
        frontier = nxt
        total.paths += len(tasks)
    return n_states


def _pmap_edges(chunks, sysname, n, total):
    import multiprocessing as mp
    from .. import core
    chunks = [c for c in chunks if c]
    edges = []
    ctx = mp.get_context('fork')
    with ctx.Pool(min(core.NCPU, len(chunks))) as pool:
        for st in pool.starmap(batch, [(c, sysname, n) for c in chunks]):
            e = st.extra.pop('edges')
            edges.extend(e)
            total.merge(st)
    edges.sort(key=lambda x: (len(x[0]), repr(x[0])))
    return edges


# ---------------------------------------------------------------------------
# conformance: nested `with` programs

def with_programs(max_depth):
    """source texts with nested with-blocks over c[0], c[1]; the innermost
    point optionally raises"""
    def bodies(d):
        yield ['probe()']
        if d == 0:
            return
        for i in (0, 1):
            for inner in bodies(d - 1):
                blk = [f'with c[{i}]:'] + ['    ' + l for l in
                                           ['probe()'] + inner]
                yield blk + ['probe()']
                if d > 1:
                    for j in (0, 1):
                        yield blk + [f'with c[{j}]:', '    probe()',
                                     'probe()']
        if d == max_depth:
            return
    progs = []
    for b in bodies(max_depth):
        progs.append('\n'.join(b))
        if 'with' in '\n'.join(b):
            # the same program left by an exception at its deepest point
            lines = list(b)
            deepest = max(range(len(lines)),
                          key=lambda k: len(lines[k]) - len(lines[k].lstrip()))
            ind = lines[deepest][:len(lines[deepest])
                                 - len(lines[deepest].lstrip())]
            lines.insert(deepest + 1, ind + "raise RuntimeError('x')")
            progs.append('\n'.join(lines))
    return progs


def run_program(src):
    """-> violations; executed in a fork"""
    import quantity
    s = MoneySys(2)
    Money = s.Money
    log = []
    expect = []

    def probe():
        convs = list(Money.registered_converters())
        try:
            amt = O.fr(Money(F(10), s.eur).convert(s.usd).amount)
        except quantity.UnitConversionError:
            amt = None
        log.append(([s.convs.index(c) for c in convs], amt))
    before = None
    probe()
    before = log.pop()
    raised = False
    try:
        exec(compile(src, '<with-program>', 'exec'),
             {'c': s.convs, 'probe': probe})
    except RuntimeError:
        raised = True
    probe()
    after = log.pop()
    out = []
    if ('raise' in src) != raised:
        out.append(('C12:with:exception-swallowed', f"program\n{src}\n"
                    f"raised={raised}"))
    if after != before:
        out.append(('C12:with:not-restored', f"after program\n{src}\n"
                    f"converters/convert = {after}, before {before}"))
    # inside: innermost active with-block decides
    depth_stack = []
    li = 0
    for line in src.splitlines():
        ind = (len(line) - len(line.lstrip())) // 4
        depth_stack = depth_stack[:ind]
        t = line.strip()
        if t.startswith('with'):
            depth_stack.append(int(t[7]))
        elif t == 'probe()':
            if li >= len(log):
                break
            convs, amt = log[li]
            li += 1
            want = list(reversed(depth_stack))
            want_amt = None if not depth_stack else \
                F(10) * O.val(RATES[depth_stack[-1]])
            if convs != want or amt != want_amt:
                out.append(('C12:with:inner-state', f"program\n{src}\nprobe "
                            f"#{li}: converters {convs}, amount {amt}; "
                            f"expected {want}, {want_amt}"))
        elif t.startswith('raise'):
            break
    return out


def part_programs(progs):
    st = Stats()
    for src in progs:
        st.paths += 1
        st.transitions += 1
        st.evaluations += 1
        st.state(('prog', src), nontrivial='with' in src)
        try:
            res = fork_call(run_program, src)
        except RuntimeError as exc:
            res = [('C12:with:unexpected-exception',
                    str(exc).strip().splitlines()[-1])]
        for sig, msg in res:
            st.violation(sig, msg, {'program': src})
    return st


def replay(case):
    if 'program' in case:
        return fork_call(run_program, case['program'])
    viol, key, en = fork_call(execute, case['system'], case['n'],
                              case['history'])
    return viol


def run(tier, seed):
    total = Stats()
    if tier == 'thorough':
        plan = [('money', 3, 8, True), ('money', 2, 5, False),
                ('moneyx', 2, 6, True), ('moneyx', 1, 4, False),
                ('generic', 4, 8, True), ('generic', 3, 5, False),
                ('table', 4, 8, True), ('table', 3, 5, False)]
        pdepth = 3
    else:
        plan = [('money', 2, 6, True), ('money', 3, 4, True),
                ('money', 2, 3, False), ('moneyx', 2, 4, True),
                ('generic', 3, 6, True), ('generic', 3, 3, False),
                ('table', 3, 6, True), ('table', 3, 3, False)]
        pdepth = 2
    counts = {}
    for sysname, n, depth, merge in plan:
        counts[f"{sysname}/n={n}/depth={depth}/"
               f"{'merged' if merge else 'all-histories'}"] = \
            bfs(sysname, n, depth, total, merge)
    progs = with_programs(pdepth)
    total.merge(pmap(part_programs, [progs[i::16] for i in range(16)]))
    total.extra['explorations'] = counts
    total.extra['with_programs'] = len(progs)
    total.sample({'system': 'money', 'n': 2,
                  'history': [['enter', 0], ['reg', 1], ['leave_exc'],
                              ['unreg', 0], ['unreg', 1]]})
    total.sample({'program': progs[min(7, len(progs) - 1)]})
    return total, dict(
        rule="money: events {register ci, unregister ci, enter ci, leave, "
             "leave by exception} (stack bounded by 4; system moneyx adds a "
             "converter that never was updated and register/unregister at a "
             "sub-class of Money, whose registry is separate), explicit-state BFS "
             "with state = (converter list, open blocks), every transition "
             "executed in a fork; plus all histories without merging to a "
             "smaller depth; generic type: {register fi, remove fi} over "
             "callables answering different unit pairs (one returns 0, one "
             "None) and, as a third system, over TableConverter instances "
             "(mapping and list form, inverted rows); nested with-programs generated and executed. "
             "non-trivial = history longer than 1 / program with a block. "
             + '; '.join(f"{k}: {v} states" for k, v in counts.items()),
        level_text="explicit-state model checking of the real registry "
                   "against a list model (LIFO stack / idempotent list)",
        assumptions=["merging equal converter lists is sound because the "
                     "list is the complete registry state; the unmerged run "
                     "guards this assumption to a smaller depth"])
