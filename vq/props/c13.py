"""C13 quantize and round follow the requested rounding mode exactly.

Engine V: amounts expressed as multiples t of the quantum (quarters, all ties,
+-1e-9 beside ties, thirds, 05UP-sensitive values), held as Decimal and as the
equal Fraction; quanta x quantum unit x own unit x 8 modes, explicit and as
configured default.
"""
from fractions import Fraction as F

from .. import oracle as O
from ..core import Stats, guarded, pmap
from ..world import World

QUANTA = ['i:1', 'D:0.5', 'D:0.25', 'D:0.1', 'F:1/3', 'i:25']
TYPES = ['Length', 'Mass', 'Duration']
NEAR = F(1, 10 ** 9)


def t_values():
    ts = [F(k, 4) for k in range(-14, 15)]
    for m in (-3, -2, -1, 0, 1, 2, 5):
        tie = F(2 * m + 1, 2)
        ts += [tie + NEAR, tie - NEAR]
    ts += [F(k, 3) for k in (-5, -4, -2, -1, 1, 2, 4, 5)]
    ts += [F(3, 10), F(-3, 10), F(53, 10), F(-53, 10), F(102, 10),
           F(149, 10), F(151, 10), F(41, 2), F(-41, 2),
           F(10 ** 12) + F(1, 2), F(-10 ** 12) - F(1, 2)]
    # a hair beside a tie (lost in any 53-bit intermediate) and quotients
    # beyond 2**53
    for eps in (F(1, 10 ** 17), F(1, 10 ** 25)):
        ts += [F(1, 2) + eps, F(1, 2) - eps, F(5, 2) - eps, F(-3, 2) - eps,
               F(-3, 2) + eps]
    ts += [F(2 ** 53 + 1), F(2 ** 53 + 1) + F(1, 3),
           F(27021597764222980, 3), F(-(2 ** 60) - 1) - F(1, 2),
           F(2 ** 60 + 3) + F(1, 2), F(10 ** 30 + 1) + F(2, 3)]
    seen, out = set(), []
    for t in ts:
        if t not in seen:
            seen.add(t)
            out.append(t)
    return out


def holders(x):
    """the same value as Decimal (if it terminates) and as Fraction"""
    from decimalfp import Decimal
    out = [('F', F(x))]
    try:
        out.insert(0, ('D', Decimal(F(x))))
    except ValueError:
        pass
    return out


@guarded('C13')
def run_quantize(w, tname, s_self, s_quant, quant, t, mode, how, st=None):
    """how: 'explicit' (rounding=mode), 'default' (mode configured) or
    'explicit-other' (rounding=mode while another mode is configured)"""
    cls = w.types[tname]
    out = []
    qv = O.val(quant)
    q_in_self = qv * w.um[s_quant].scale / w.um[s_self].scale
    x = F(t) * q_in_self
    want = O.round_int(F(t), mode) * q_in_self
    quantum = cls(O.dec(quant), w.units[s_quant])
    prev = O.get_mode()
    try:
        if how == 'default':
            O.set_mode(mode)
        elif how == 'explicit-other':
            # another mode is configured: the explicit one decides
            O.set_mode(O.MODES[(O.MODES.index(mode) + 3) % len(O.MODES)])
        results = []
        for rep, amount in holders(x):
            q = cls(amount, w.units[s_self])
            try:
                if how in ('explicit', 'explicit-other'):
                    r = q.quantize(quantum, O.mode_obj(mode))
                else:
                    r = q.quantize(quantum)
            except Exception as exc:
                out.append((f'C13:quantize:raises:{rep}',
                            f"({q!r}).quantize({quantum!r}, {mode}) raised "
                            f"{type(exc).__name__}: {exc}"))
                continue
            if st is not None:
                st.transitions += 1
                st.evaluations += 1
            if type(r) is not cls or r.unit is not w.units[s_self]:
                out.append((f'C13:quantize:type:{rep}',
                            f"({q!r}).quantize(...) -> {r!r}"))
                continue
            if isinstance(r.amount, float) or not O.is_exact(r.amount) or \
                    O.fr(r.amount) != want:
                out.append((f'C13:quantize:{mode}:{rep}:{how}',
                            f"({q!r}).quantize({quantum!r}, {mode} [{how}]) "
                            f"= {r.amount!r} {s_self}; amount/quantum = {t}, "
                            f"expected {want}"))
            results.append(O.fr(r.amount))
        if len(set(results)) > 1:
            out.append(('C13:quantize:representation',
                        f"Decimal and Fraction holders of {x} {s_self} "
                        f"quantize differently: {results}"))
    finally:
        O.set_mode(prev)
    return out


@guarded('C13')
def run_round(w, tname, s, x, n, st=None):
    cls = w.types[tname]
    out = []
    for rep, amount in holders(F(x)):
        q = cls(amount, w.units[s])
        try:
            r = round(q) if n is None else round(q, n)
        except Exception as exc:
            out.append((f'C13:round:raises:{rep}', f"round({q!r}, {n}) "
                        f"raised {type(exc).__name__}: {exc}"))
            continue
        want = O.round_to(F(x), F(10) ** -(n or 0), 'ROUND_HALF_EVEN')
        if st is not None:
            st.transitions += 1
            st.evaluations += 1
        if type(r) is not cls or r.unit is not w.units[s]:
            out.append((f'C13:round:type:{rep}', f"round({q!r}, {n}) -> "
                        f"{r!r}"))
            continue
        if isinstance(r.amount, float) or O.fr(r.amount) != want:
            out.append((f'C13:round:value:{rep}',
                        f"round({q!r}, {n}) = {r.amount!r}, expected "
                        f"{want} (half-even)"))
    # under another configured default mode round(q, n) still "rounds the
    # amount": it must agree with round() applied to the amount itself
    for mode in ('ROUND_HALF_UP', 'ROUND_CEILING', 'ROUND_DOWN'):
        prev = O.get_mode()
        O.set_mode(mode)
        try:
            for rep, amount in holders(F(x)):
                q = cls(amount, w.units[s])
                own = round(amount) if n is None else round(amount, n)
                r = round(q) if n is None else round(q, n)
                if st is not None:
                    st.transitions += 1
                    st.evaluations += 1
                if O.fr(r.amount) != O.fr(own) or r.unit is not w.units[s]:
                    out.append((f'C13:round:amount-rounding:{rep}',
                                f"default mode {mode}: round({q!r}, {n}) = "
                                f"{r.amount!r}, round(amount, {n}) = "
                                f"{own!r}"))
        except Exception as exc:
            out.append(('C13:round:raises:configured-mode',
                        f"{mode}: round({x} {s}, {n}): "
                        f"{type(exc).__name__}: {exc}"))
        finally:
            O.set_mode(prev)
    return out


@guarded('C13')
def run_reject(w, case):
    """quantum of another type / type without reference unit -> TypeError"""
    kind = case[0]
    _, s1, s2 = case
    u1, u2 = w.units[s1], w.units[s2]
    out = []
    for a in (5, 0, F(0), O.dec('D:-2.5')):
        q, quantum = u1.qty_cls(a, u1), u2.qty_cls(1, u2)
        for qname, qv in (('quantity', quantum), ('number', 1)):
            if qname == 'number' and kind == 'noref':
                continue
            try:
                r = q.quantize(qv)
            except TypeError:
                continue
            except Exception as exc:
                out.append((f'C13:reject:{kind}', f"({a} {s1}).quantize("
                            f"{qname} 1 {s2}) raised {type(exc).__name__} "
                            "instead of TypeError"))
                continue
            out.append((f'C13:reject:{kind}', f"({a} {s1}).quantize({qname} "
                        f"1 {s2}) returned {r!r}"))
    return out


@guarded('C13')
def run_failure_keeps_default(w, mode):
    """a quantize call that fails must not change the configured default
    rounding mode"""
    cls = w.types['Mass']
    g = w.units['g']
    out = []
    for dflt in ('ROUND_HALF_EVEN', 'ROUND_DOWN'):
        O.set_mode(dflt)
        try:
            for amount in (O.dec('D:2.5'), F(5, 2)):
                try:
                    cls(amount, g).quantize(cls(0, g), O.mode_obj(mode))
                except Exception:
                    pass
                try:
                    cls(amount, g).quantize(w.types['Length'](1, w.units['m']),
                                            O.mode_obj(mode))
                except Exception:
                    pass
            if O.get_mode() != dflt:
                out.append(('C13:failed-quantize-changed-default-mode',
                            f"default mode {dflt} became {O.get_mode()} "
                            f"after a failing quantize(..., {mode})"))
            for amount in (O.dec('D:2.5'), F(5, 2), O.dec('D:-3.5')):
                r = cls(amount, g).quantize(cls(1, g))
                want = O.round_int(F(amount), dflt)
                if O.fr(r.amount) != want:
                    out.append(('C13:default-after-failed-quantize',
                                f"after a failing quantize(..., {mode}): "
                                f"({amount} g).quantize(1 g) = {r.amount}, "
                                f"default mode {dflt} gives {want}"))
        finally:
            O.set_mode('ROUND_HALF_EVEN')
    return out


USER_NG = [
    ['type', 'NG', 'g0', None],
    ['unit', 'NG', 'gneg', ['scaled', 'F:-1/4', 'g0']],      # negative scale
    ['unit', 'NG', 'kgneg', ['scaled', 'i:1000', 'gneg']],
    ['unit', 'NG', 'g2', ['scaled', 'i:2', 'g0']],
]


def type_world(tname):
    w = World(catalogue=True)
    if tname == 'NG':           # only in a fresh fork
        for ev in USER_NG:
            w.must(ev)
    return w


def reject_subclass_quantum(_=None):
    """(fork) a Python sub-class of a quantity class is a type of its own:
    its quantities are no valid quanta for the parent (TypeError)"""
    st = Stats()
    w = World(catalogue=True)
    Q = w.q
    Length = w.types['Length']
    Depth = type(Length)('Depth', (Length,), {}, ref_unit_symbol='dpth')
    for self_q, quant, what in (
            (Length(O.dec('D:2.5')), Depth(1), 'Length by Depth'),
            (Length(0), Depth(O.dec('D:0.25')), 'zero Length by Depth'),
            (Depth(O.dec('D:2.5')), Length(1), 'Depth by Length')):
        for mode in (None, 'ROUND_UP'):
            st.paths += 1
            st.transitions += 1
            st.evaluations += 1
            st.state(('reject-subclass', what, mode), nontrivial=True)
            try:
                r = self_q.quantize(quant) if mode is None else \
                    self_q.quantize(quant, O.mode_obj(mode))
                st.violation('C13:reject:subclass-quantum',
                             f"{what}: quantize returned {r!r}, expected "
                             "TypeError", {'reject_subclass': True})
            except TypeError:
                pass
            except Exception as exc:
                st.violation('C13:reject:subclass-quantum',
                             f"{what}: {type(exc).__name__}: {exc}, expected "
                             "TypeError", {'reject_subclass': True})
    return st


def part(p, ts, modes):
    tname, s_self, s_quant = p
    st = Stats()
    w = type_world(tname)
    for quant in QUANTA:
        for t in ts:
            for mode in modes:
                for how in ('explicit', 'default', 'explicit-other'):
                    st.paths += 1
                    tie = (2 * t).denominator == 1 and t.denominator == 2
                    st.state((tname, s_self, s_quant, quant, t, mode),
                             nontrivial=t.denominator != 1)
                    st.outcomes['tie' if tie else 'non-tie'] += 1
                    res = run_quantize(w, tname, s_self, s_quant, quant, t,
                                       mode, how, st)
                    for sig, msg in res:
                        st.violation(sig, msg, {'quantize': [
                            tname, s_self, s_quant, quant, str(t), mode,
                            how]})
    return st


def part_round(p):
    tname, s = p
    st = Stats()
    w = World(catalogue=True)
    xs = [F(k, 8) for k in range(-40, 41)] + [F(k, 3) for k in range(-7, 8)]
    # values whose rounding to an integer lands on a tie of a coarser step
    xs += [F(299, 2), F(101, 2), F(449, 3), F(-299, 2), F(8346719, 10000),
           F(29, 2), F(9, 2), F(1499, 10), F(2501, 2), F(-101, 2),
           F(14999, 100), F(4999, 1000), F(24995, 10000)]
    xs += [F(12345, 1000), F(-12345, 1000), F(5, 1000), F(15, 1000),
           F(25, 1000), F(250), F(350), F(-250), F(1005, 1000),
           F(123456789, 100), F(1, 2000), F(3, 2000)]
    for x in xs:
        for n in (None, -2, -1, 0, 1, 2, 3):
            st.paths += 1
            st.state(('round', tname, s, x, n), nontrivial=True)
            for sig, msg in run_round(w, tname, s, x, n, st):
                st.violation(sig, msg, {'round': [tname, s, str(x), n]})
    return st


def replay(case):
    w = World(catalogue=True)
    if 'quantize' in case:
        w = type_world(case['quantize'][0])
        t, ss, sq, quant, tv, mode, how = case['quantize']
        return run_quantize(w, t, ss, sq, quant, F(tv), mode, how)
    if 'round' in case:
        t, s, x, n = case['round']
        return run_round(w, t, s, F(x), n)
    if 'reject_subclass' in case:
        from ..hist import fork_call
        st = fork_call(reject_subclass_quantum)
        return [(sig, msg) for sig, (n, msg, cs) in st.viol.items()]
    if 'reject' in case:
        return run_reject(w, case['reject'])
    if 'failure_default' in case:
        return run_failure_keeps_default(w, case['failure_default'])
    raise ValueError(case)


def run(tier, seed):
    total = Stats()
    ts = t_values()
    parts = []
    for tname in TYPES:
        syms = list(O.CATALOGUE[tname][3])
        if tier == 'thorough':
            parts += [(tname, a, b) for a in syms for b in syms]
        else:
            k = seed % len(syms)
            rot = syms[k:] + syms[:k]
            pick = [rot[0], rot[len(rot) // 2], rot[-1]]
            parts += [(tname, a, b) for a in pick for b in pick]
    total.merge(pmap(part, parts, (ts, O.MODES)))
    # units of equal scale (the result keeps the called quantity's unit)
    alias = [('Volume', a, b) for a in ('l', 'dm³', 'ml', 'cm³')
             for b in ('l', 'dm³', 'ml', 'cm³')]
    alias += [('Energy', a, b) for a in ('J', 'Nm', 'Ws')
              for b in ('J', 'Nm', 'Ws')]
    total.merge(pmap(part, alias, (ts[::3], O.MODES)))
    # a user type with negatively scaled units (the quantum itself is given
    # in positively scaled ones)
    total.merge(pmap(part, [('NG', a, b) for a in ('g0', 'gneg', 'kgneg')
                            for b in ('g0', 'g2')], (ts, O.MODES),
                     fresh=True))
    total.merge(pmap(reject_subclass_quantum, [0], fresh=True))
    rparts = [(t, s) for t in TYPES for s in list(O.CATALOGUE[t][3])[:3]]
    total.merge(pmap(part_round, rparts))
    # rejections
    w = World(catalogue=True)
    rej = [['foreign', 'm', 'kg'], ['foreign', 'kg', 's'],
           ['foreign', 'm²', 'm'], ['foreign', 'B', 'b/s'],
           ['noref', '°C', '°C'], ['noref', 'K', '°C'],
           ['foreign', '°C', 'm'], ['foreign', 'm', 'K']]
    for case in rej:
        total.paths += 1
        total.transitions += 1
        total.evaluations += 1
        total.state(('reject', tuple(case)), nontrivial=True)
        for sig, msg in run_reject(w, case):
            total.violation(sig, msg, {'reject': case})
    for mode in O.MODES:
        total.paths += 1
        total.transitions += 10
        total.evaluations += 8
        total.state(('failure-keeps-default', mode), nontrivial=True)
        for sig, msg in run_failure_keeps_default(w, mode):
            total.violation(sig, msg, {'failure_default': mode})
    total.sample({'quantize': ['Length', 'mi', 'in', 'D:0.25', '5/2',
                               'ROUND_HALF_DOWN', 'default'],
                  'meaning': 'amount = 2.5 quanta of 0.25 in, held in mi'})
    total.sample({'round': ['Mass', 'kg', '-12345/1000', 2]})
    total.extra['t_values'] = len(ts)
    total.extra['unit_pairs'] = len(parts)
    return total, dict(
        rule=f"{len(ts)} multiples t of the quantum (quarters -3.5..3.5, "
             "ties +-1e-9, thirds, 05UP-sensitive, 1e12+1/2) x 6 quanta x "
             "(own unit, quantum unit) pairs of Length/Mass/Duration (quick: "
             "3x3 per type chosen by the seed, thorough: all) x 8 modes x "
             "{explicit, configured default} x {Decimal, Fraction}; round() "
             "for n in {omitted,-2..3}; 8 rejection cases. non-trivial = t "
             "not integral",
        level_text="bounded exhaustive exploration against the rounding "
                   "oracle (cross-validated with stdlib decimal in setup)",
        assumptions=["round(q, n) is compared under ROUND_HALF_EVEN only "
                     "(DESIGN interpretation choices)"])
