"""C14 Table (affine) converters are exact, invertible and mutually consistent.

Engine V on the predefined temperature scales (all ordered pairs and triples of
units x amounts, fixed points, comparisons across units) and exhaustive
enumeration of user conversion tables (every table with <= n rows over the 6
ordered unit pairs, factors x offsets, mapping and list form), each table in a
fresh fork.
"""
import itertools
import operator
from fractions import Fraction as F

from .. import oracle as O
from ..core import Stats, guarded, pmap
from ..world import World
from . import amounts as A

TU = ['°C', '°F', 'K']
FIXED = [('°C', F(0), 'K', F(27315, 100)), ('°C', F(0), '°F', F(32)),
         ('°C', F(-40), '°F', F(-40)), ('K', F(0), '°F', F(-45967, 100)),
         ('K', F(27315, 100), '°F', F(32)), ('°C', F(100), '°F', F(212)),
         ('°C', F(100), 'K', F(37315, 100))]
OPS = {'<': operator.lt, '<=': operator.le, '==': operator.eq,
       '!=': operator.ne, '>=': operator.ge, '>': operator.gt}

FACTORS = ['i:2', 'F:9/5', 'D:0.1', 'i:3']
OFFSETS = ['i:0', 'i:32', 'F:-1/3']


def holders(x):
    from decimalfp import Decimal
    out = [F(x)]
    try:
        out.insert(0, Decimal(F(x)))
    except ValueError:
        pass
    return out


@guarded('C14')
def run_temp_path(w, path, x, st=None):
    cls = w.types['Temperature']
    out = []
    for h in holders(x):
        q = cls(h, w.units[path[0]])
        k = O.temp_to_kelvin(path[0], x)
        for nxt in path[1:]:
            want = O.temp_from_kelvin(nxt, k)
            try:
                r = q.convert(w.units[nxt])
                ea = q.equiv_amount(w.units[nxt])
                qu = q / w.units[nxt]       # operator form of equiv_amount
            except Exception as exc:
                out.append(('C14:temp:raises', f"({q!r}).convert({nxt}): "
                            f"{type(exc).__name__}: {exc}"))
                break
            if st is not None:
                st.transitions += 1
                st.evaluations += 2
            if type(r) is not cls or r.unit is not w.units[nxt] or \
                    isinstance(r.amount, float) or \
                    not O.is_exact(r.amount) or O.fr(r.amount) != want or \
                    ea is None or O.fr(ea) != want or \
                    isinstance(qu, float) or O.fr(qu) != want:
                out.append((f'C14:temp:value:{q.unit.symbol}->{nxt}',
                            f"({q!r}).convert({nxt}) = {r!r}, equiv_amount "
                            f"{ea!r}, quantity / unit {qu!r}; physics says "
                            f"{want}"))
                break
            q = r
    return out


@guarded('C14')
def run_temp_cmp(w, s1, x1, s2, x2):
    cls = w.types['Temperature']
    out = []
    k1, k2 = O.temp_to_kelvin(s1, x1), O.temp_to_kelvin(s2, x2)
    for h1 in holders(x1):
        for h2 in holders(x2):
            q1, q2 = cls(h1, w.units[s1]), cls(h2, w.units[s2])
            for name, op in OPS.items():
                try:
                    got = op(q1, q2)
                except Exception as exc:
                    out.append((f'C14:temp:cmp:{name}:raises',
                                f"({q1!r}) {name} ({q2!r}): "
                                f"{type(exc).__name__}"))
                    continue
                if got is not op(k1, k2):
                    out.append((f'C14:temp:cmp:{name}',
                                f"({q1!r}) {name} ({q2!r}) is {got}; in "
                                f"kelvin {k1} {name} {k2}"))
    return out


# ---------------------------------------------------------------------------
# user tables

UNITS = ['ta', 'tb', 'tc']
PAIRS = [(a, b) for a in UNITS for b in UNITS if a != b]


def user_tables(max_rows, factors, offsets):
    """every table with 1..max_rows rows on distinct ordered unit pairs"""
    rows = [(p, f, o) for p in PAIRS for f in factors for o in offsets]
    for n in range(1, max_rows + 1):
        for pairs in itertools.combinations(PAIRS, n):
            for fo in itertools.product(
                    itertools.product(factors, offsets), repeat=n):
                yield [[a, b, f, o] for (a, b), (f, o) in zip(pairs, fo)]


def run_table(p, amts):
    table, form = p
    st = Stats()
    w = World()
    Q = w.q
    from quantity import TableConverter
    cls = Q.QuantityMeta('TT', (Q.Quantity,), {})
    us = {s: cls.new_unit(s) for s in UNITS}
    # a second type: converters must not leak between types
    rows = [(us[a], us[b], O.dec(f), O.dec(o)) for a, b, f, o in table]
    if form == 'mapping':
        conv = TableConverter({(r[0], r[1]): (r[2], r[3]) for r in rows})
        cls.register_converter(conv)
    elif form == 'two':
        # the rows are spread over two converters: the first row in the
        # older one, the rest in the newer one -- a pair only the older
        # table knows must still convert
        cls.register_converter(TableConverter(rows[:1]))
        cls.register_converter(TableConverter({(r[0], r[1]): (r[2], r[3])
                                               for r in rows[1:]}))
    elif form == 'list+others':
        # other tables exist besides the registered one: one that was
        # registered and withdrawn before (it tabulated the opposite
        # directions, and a pair the table does not know), and one that is
        # built afterwards and never registered.  Neither has any say.
        known = {(a, b) for a, b, f, o in table} | \
            {(b, a) for a, b, f, o in table}
        strangers = [pr for pr in PAIRS if pr not in known][:1]
        old = TableConverter([(r[1], r[0], O.dec('i:7'), O.dec('i:1'))
                              for r in rows]
                             + [(us[a], us[b], O.dec('i:7'), O.dec('i:1'))
                                for a, b in strangers])
        cls.register_converter(old)
        cls.remove_converter(old)
        conv = TableConverter(rows)
        cls.register_converter(conv)
        TableConverter([(us[a], us[b], O.dec('i:5'), O.dec('i:-2'))
                        for a, b in PAIRS])
    elif form == 'gen':        # an Iterable that can be walked only once
        conv = TableConverter(r for r in rows)
        cls.register_converter(conv)
    else:
        conv = TableConverter(rows)
        cls.register_converter(conv)
    model = {(a, b): (O.val(f), O.val(o)) for a, b, f, o in table}
    if form == 'two':
        # most recent converter first; the first that answers wins
        newer = {(a, b): (O.val(f), O.val(o)) for a, b, f, o in table[1:]}
        older = {(a, b): (O.val(f), O.val(o)) for a, b, f, o in table[:1]}

    def one_table(m, a, b, x):
        if (a, b) in m:
            f, o = m[(a, b)]
            return x * f + o
        if (b, a) in m:
            f, o = m[(b, a)]
            return (x - o) / f
        return None

    def expected(a, b, x):
        if a == b:
            return x
        if form == 'two':
            r = one_table(newer, a, b, x)
            return r if r is not None else one_table(older, a, b, x)
        return one_table(model, a, b, x)

    def direction(a, b):
        if form == 'two':
            m = newer if one_table(newer, a, b, F(1)) is not None else older
        else:
            m = model
        return 'forward' if (a, b) in m else 'reverse'
    for a in UNITS:
        for b in UNITS:
            for code in amts:
                x = O.val(code)
                want = expected(a, b, x)
                for h in holders(x):
                    q = cls(h, us[a])
                    case = {'table': table, 'form': form, 'from': a,
                            'to': b, 'amount': code}
                    st.paths += 1
                    st.transitions += 1
                    st.evaluations += 1
                    st.state((tuple(map(tuple, table)), a, b),
                             nontrivial=a != b)
                    try:
                        r = q.convert(us[b])
                        err = None
                    except Exception as exc:
                        r, err = None, exc
                    if want is None:
                        st.outcomes['missing'] += 1
                        if not isinstance(err, Q.UnitConversionError):
                            st.violation('C14:table:missing',
                                         f"{case}: expected "
                                         f"UnitConversionError, got "
                                         f"{type(err).__name__ if err else r!r}",
                                         case)
                        # equality across unconvertible units is False
                        try:
                            eqv = q == cls(h, us[b])
                        except Exception as exc:
                            eqv = type(exc).__name__
                        if eqv is not False:
                            st.violation('C14:table:eq-missing',
                                         f"{case}: == gives {eqv}, expected "
                                         "False", case)
                        continue
                    st.outcomes['identity' if a == b else
                                direction(a, b)] += 1
                    if err is not None:
                        st.violation('C14:table:raises', f"{case}: "
                                     f"{type(err).__name__}: {err}", case)
                        continue
                    if type(r) is not cls or r.unit is not us[b] or \
                            isinstance(r.amount, float) or \
                            not O.is_exact(r.amount) or \
                            O.fr(r.amount) != want:
                        kind = direction(a, b) if a != b else 'identity'
                        st.violation(f'C14:table:{kind}',
                                     f"{case}: got {r!r}, expected {want}",
                                     case)
                        continue
                    # the operator form quantity / unit is the same
                    # conversion
                    try:
                        qu = q / us[b]
                        okq = not isinstance(qu, float) and \
                            O.fr(qu) == want
                    except Exception as exc:
                        qu, okq = exc, False
                    st.evaluations += 1
                    if not okq:
                        st.violation('C14:table:qty-by-unit',
                                     f"{case}: ({q!r}) / {b} = {qu!r}, "
                                     f"expected {want}", case)
                        continue
                    # round trip: identical amount when the way back uses
                    # the same row
                    back = expected(b, a, want)
                    if back is not None and a != b and form != 'two' and \
                            ((a, b) in model) != ((b, a) in model):
                        try:
                            r2 = r.convert(us[a])
                        except Exception as exc:
                            st.violation('C14:table:round-trip-raises',
                                         f"{case}: converting {r!r} back "
                                         f"raised {type(exc).__name__}: "
                                         f"{exc}", case)
                            continue
                        st.transitions += 1
                        st.evaluations += 1
                        if O.fr(r2.amount) != x:
                            st.violation('C14:table:round-trip',
                                         f"{case}: back gives {r2!r}", case)
                    # comparisons agree with the conversion of the right
                    # operand into the left operand's unit
                    other = cls(F(want) + 1, us[b])
                    b_r, b_o = expected(b, a, want), expected(b, a, want + 1)
                    try:
                        ok = (q == r) is (x == b_r) and \
                            (q < other) is (x < b_o) and \
                            (q >= other) is (x >= b_o)
                    except Exception as exc:
                        ok = False
                    st.evaluations += 1
                    if not ok:
                        st.violation('C14:table:cmp', f"{case}: comparisons "
                                     f"disagree with the conversion", case)
    return st


@guarded('C14')
def run_temp_closed(w, path, x, st=None):
    """temperature units the physics oracle does not know (none on the
    pinned tree): the table must still be closed -- there and back is the
    identity, through a third unit equals direct, equality is symmetric"""
    import quantity
    cls = w.types['Temperature']
    u0, u1, u2 = (cls.get_unit_by_symbol(s) for s in path)
    out = []
    for h in holders(x):
        q0 = cls(h, u0)
        try:
            r1 = q0.convert(u1)
            back = r1.convert(u0)
            r2 = r1.convert(u2)
            direct = q0.convert(u2)
        except quantity.UnitConversionError:
            continue
        if st is not None:
            st.transitions += 4
            st.evaluations += 3
        if O.fr(back.amount) != x:
            out.append(('C14:temp:closed:round-trip',
                        f"{x} {path[0]} -> {path[1]} -> {path[0]} = "
                        f"{back.amount}"))
        if O.fr(r2.amount) != O.fr(direct.amount):
            out.append(('C14:temp:closed:via-third',
                        f"{x} {path[0]} -> {path[1]} -> {path[2]} = "
                        f"{r2.amount}, direct {direct.amount}"))
        if not (q0 == r1) or not (r1 == q0) or q0 < r1 or r1 < q0:
            out.append(('C14:temp:closed:eq',
                        f"{q0!r} and its own conversion {r1!r} do not "
                        "compare equal both ways"))
    return out


def temp_units():
    import quantity.predefined as P
    return sorted(u.symbol for u in P.Temperature.units())


def part_temp(p, amts):
    st = Stats()
    w = World(catalogue=True)
    u0 = p
    extra = [s for s in temp_units() if s not in TU]
    for code in amts:
        x = O.val(code)
        for u1 in TU + extra:
            for u2 in TU + extra:
                if u0 in TU and u1 in TU and u2 in TU:
                    continue
                st.paths += 1
                st.state(('temp-closed', u0, u1, u2, x), nontrivial=True)
                for sig, msg in run_temp_closed(w, [u0, u1, u2], x, st):
                    st.violation(sig, msg, {'temp_closed': [u0, u1, u2],
                                            'amount': code})
        if u0 not in TU:
            continue
        for u1 in TU:
            for u2 in TU:
                st.paths += 1
                st.state(('temp', u0, u1, u2, x),
                         nontrivial=len({u0, u1, u2}) > 1)
                for sig, msg in run_temp_path(w, [u0, u1, u2, u0], x, st):
                    st.violation(sig, msg, {'temp_path': [u0, u1, u2, u0],
                                            'amount': code})
            # comparisons with the equal value and neighbours
            k = O.temp_to_kelvin(u0, x)
            eq = O.temp_from_kelvin(u1, k)
            for x2 in (eq, eq + F(1, 10 ** 9), eq - F(1, 10 ** 9)):
                st.paths += 1
                st.transitions += 6
                st.evaluations += 6
                for sig, msg in run_temp_cmp(w, u0, x, u1, x2):
                    st.violation(sig, msg, {'temp_cmp': [u0, code, u1,
                                                         str(x2)]})
    return st


def replay(case):
    if 'temp_path' in case:
        w = World(catalogue=True)
        return run_temp_path(w, case['temp_path'], O.val(case['amount']))
    if 'temp_closed' in case:
        w = World(catalogue=True)
        return run_temp_closed(w, case['temp_closed'], O.val(case['amount']))
    if 'temp_cmp' in case:
        w = World(catalogue=True)
        u0, code, u1, x2 = case['temp_cmp']
        return run_temp_cmp(w, u0, O.val(code), u1, F(x2))
    if 'fixed' in case:
        w = World(catalogue=True)
        s1, x1, s2, x2 = case['fixed']
        return run_fixed(w, s1, F(x1), s2, F(x2))
    st = run_table((case['table'], case['form']), [case['amount']])
    return [(sig, msg) for sig, (n, msg, cs) in st.viol.items()]


@guarded('C14')
def run_fixed(w, s1, x1, s2, x2):
    out = []
    cls = w.types['Temperature']
    for a, xa, b, xb in ((s1, x1, s2, x2), (s2, x2, s1, x1)):
        for h in holders(xa):
            r = cls(h, w.units[a]).convert(w.units[b])
            if O.fr(r.amount) != xb:
                out.append((f'C14:fixed-point:{a}->{b}',
                            f"{xa} {a} converts to {r.amount} {b}, defining "
                            f"fixed point is {xb}"))
            if not (cls(h, w.units[a]) == cls(xb, w.units[b])):
                out.append((f'C14:fixed-point-eq:{a}->{b}',
                            f"{xa} {a} != {xb} {b}"))
    return out


def run(tier, seed):
    total = Stats()
    amts = A.pick(tier, seed)
    amts = amts + ['i:32', 'D:273.15', 'D:-459.67', 'i:-40', 'F:160/9',
                   'D:-273.15']
    amts = list(dict.fromkeys(amts))
    total.merge(pmap(part_temp, list(dict.fromkeys(TU + temp_units())),
                     (amts,)))
    w = World(catalogue=True)
    for fp in FIXED:
        total.paths += 1
        total.transitions += 4
        total.evaluations += 4
        total.state(('fixed', fp), nontrivial=True)
        for sig, msg in run_fixed(w, *fp):
            total.violation(sig, msg, {'fixed': [fp[0], str(fp[1]), fp[2],
                                                 str(fp[3])]})
    if tier == 'thorough':
        tables = list(user_tables(3, FACTORS[:3], OFFSETS))
        tables += list(user_tables(2, FACTORS, OFFSETS))
    else:
        tables = list(user_tables(2, FACTORS[:3], OFFSETS))
    seen, uniq = set(), []
    for t in tables:
        k = repr(t)
        if k not in seen:
            seen.add(k)
            uniq.append(t)
    parts = [(t, form) for t in uniq for form in ('mapping', 'list', 'gen')]
    parts += [(t, 'two') for t in uniq if len(t) >= 2]
    parts += [(t, 'list+others') for t in uniq]
    uamts = ['i:0', 'i:7', 'D:-2.5', 'F:1/3', 'i:32', 'D:0.1', 'F:-1/3']
    total.merge(pmap(run_table, parts, (uamts,), fresh=True))
    total.sample({'table': uniq[len(uniq) // 2], 'form': 'list',
                  'explored': 'all 9 unit pairs x 7 amounts x holders'})
    total.sample({'temp_path': ['°F', 'K', '°C', '°F'],
                  'amount': 'D:-459.67'})
    total.extra['user_tables'] = len(uniq)
    total.extra['amount_alphabet'] = amts
    return total, dict(
        rule="temperature: every closed path u0->u1->u2->u0 over the 3 units "
             "x amount alphabet x {Decimal, Fraction}; 6 operators against "
             "the equal value and +-1e-9 neighbours in every other unit; 7 "
             f"defining fixed points both ways; user tables: all "
             f"{len(uniq)} tables with <= "
             f"{3 if tier == 'thorough' else 2} rows over the 6 ordered unit "
             "pairs x factors x offsets, as mapping, list, one-shot iterable, "
             "spread over two converters, and as a list beside a withdrawn "
             "and a never registered table, each in a "
             "fresh fork: all 9 unit pairs x 7 amounts (forward, reverse, "
             "identity, missing). non-trivial = units differ",
        level_text="bounded exhaustive exploration against exact affine "
                   "arithmetic / physics of the scales",
        assumptions=["tables with more rows than the bound are not covered"])
