"""C15 Directory coherence: unique symbols, own type, definitions mean what
they say.

Engine H: stateless DFS over all declaration histories (valid and invalid
events, enabled according to the harness's directory model) up to the depth
bound; every node is a fork() snapshot; after every step the complete
directory is compared with the model in a throw-away fork.
"""
from .. import oracle as O
from ..core import Stats
from ..hist import run_dfs, fork_call
from . import decl

VALID = ['B1', 'B2', 'N1', 'S', 'V', 'P', 'NB', 'x1', 'x2', 'x3', 'y1',
         'x1/y1', 'x1/y0', 'x1²', 'vt', 'st', 'n1', 'n1/x0', 'x1dup', 'vt2', 'vusurp', 'x1pad', '?query']
INVALID = ['!dupsym', '!dupsym2', '!empty', '!nonstr', '!S2', '!V2',
           '!B1again', '!othertype', '!otherdim', '!wrongbase',
           '!wrongcount', '!B3dupref', '!derivebase', '!NB2', '!P2',
           '!dupderive', '!dupterm', '!Pdupsym', '!Sdupsym', '!Pnum',
           '!Punits', '!numterm', '!numonly', '!zero', '!zeroterm']
QUICK_INVALID = ['!dupsym', '!S2', '!othertype', '!otherdim', '!wrongbase',
                 '!empty', '!dupderive', '!dupterm']


ROOTS = [[], ['B1', 'B2'], ['B1', 'B2', 'V', 'x1', 'y1'],
         ['B1', 'N1', 'NB', 'n1'], ['B1', 'B2', 'S', 'V', 'P', 'x1'],
         ['B1', 'B2', 'N1', 'S', 'V', 'x1', 'x2', 'y1', 'x1/y1', 'x1²']]


def explore(names, depth, total, prop='C15', max_invalid=None, split=2,
            on_rec=None, root=()):
    def enabled(state, hist):
        return decl.enabled_names(state, names, max_invalid)

    def step(state, hist, name):
        return decl.step(state, hist, name, with_ops=(prop != 'C15'))

    fps = set()

    def on_record(rec):
        total.paths += 1
        total.transitions += 1
        total.evaluations += 1
        if 'crash' in rec:
            total.violation(f'{prop}:explorer-crash', rec['crash'][-300:],
                            {'history': rec['h']})
            return
        fps.add(rec['fp'])
        total.state((rec['fp'],), nontrivial=rec['n_units'] > 1)
        rec['root'] = list(root)
        total.outcomes['accepted' if rec['ok'] else 'rejected'] += 1
        for sig, msg in rec['viol']:
            if sig.startswith(prop) or prop == 'C15' and \
                    sig.startswith('C15'):
                total.violation(sig, f"after {list(root)} + {rec['h']}: "
                                f"{msg}", {'root': list(root),
                                           'history': rec['h']})
        if on_rec is not None:
            on_rec(rec)
    import functools
    n = run_dfs(functools.partial(decl.make_state, tuple(root)), enabled,
                step, depth, on_record, split_depth=split)
    return n, len(fps)


def replay(case):
    def run():
        state = decl.make_state(tuple(case.get('root', ())))
        hist = []
        out = []
        for name in case['history']:
            rec = decl.step(state, hist, name)
            hist = hist + [name]
            out = [(s, f"after {hist}: {m}") for s, m in rec['viol']
                   if s.startswith('C15')]
        return out
    return fork_call(run)


def run(tier, seed):
    total = Stats()
    counts = {}
    if tier == 'thorough':
        plans = [(VALID + INVALID, 3, ROOTS),
                 (VALID[:13] + QUICK_INVALID[:4] + ['?query'], 4,
                  [ROOTS[0], ROOTS[2], ROOTS[4]])]
    else:
        k = seed % 3
        inv = QUICK_INVALID[k:] + QUICK_INVALID[:k]
        plans = [(VALID + INVALID, 2, ROOTS), (VALID + inv[:4], 3, ROOTS)]
    # two unit families in a type without reference unit (own small plan)
    plans.append((['n2', 'n1k', 'n2k', 'nmix', '!nmixbad', 'n1/x0',
                   '!dupsym', 'BN', 'x1/n1', 'x1'], 6 if tier == 'thorough' else 5, [ROOTS[3]]))
    plans.append((['B\u2126', 'k\u2126', 'S\u2126', 'k\u2126\u00b2',
                   '!dup\u2126', '?query'], 6 if tier == 'thorough' else 5,
                  [ROOTS[0]]))
    plans.append((['L1', 'L2', 'LL', '!LL2', 'B1', 'B1c', 'xc1', 'x1',
                   '!subdef',
                   'xnone', '!zero', '!zeroterm', 'Q1', 'qnone', 'S12',
                   'x1^12', '?query'], 5 if tier == 'thorough' else 4, [ROOTS[0]]))
    plans.append((['xnone', 'xnone/y0', 'x1/y1', 'x1/y0', 'vusurp', '!dupsym',
                   '?query'], 4,
                  [ROOTS[2]]))
    plans.append((['x1', 'x1pad', 'x2', '?query', '!dupsym'], 4, [ROOTS[1]]))
    plans.append((['EUR', 'Tok', 'TokCHF', 'TokR', 'TokRDKK', '?query'], 5,
                  [ROOTS[0]]))
    for names, depth, roots in plans:
        for root in roots:
            n, nfp = explore(names, depth, total, root=root)
            counts[f"root {'+'.join(root) or 'empty'} / {len(names)} events "
                   f"/ depth {depth}"] = {'nodes': n,
                                         'distinct_directories': nfp}
    total.extra['explorations'] = counts
    total.sample({'history': ['B1', 'x1', '!dupsym', 'S', 'x1²'],
                  'events': {n: decl.EVENTS[n][0] for n in
                             ['B1', 'x1', '!dupsym', 'S', 'x1²']}})
    return total, dict(
        rule="events: declare base types with/without reference unit, "
             "derived types (default and explicit reference symbol, without "
             "reference unit), scaled / term-defined / derived-from-base / "
             "definition-less units, a second unit with an existing scale, "
             "15 invalid declarations and an in-process query event; enabled according to the "
             "harness's model, each at most once per history; from 6 root "
             "directories (empty and 5 pre-declared ones) all histories to "
             "the depth bound, no pruning: "
             + '; '.join(f"{k}: {v['nodes']} nodes" for k, v in
                         counts.items())
             + ". state = fingerprint of the observable directory; "
             "non-trivial = more than one unit declared",
        level_text="stateless model checking of the real registries "
                   "(fork() snapshot per node) against a directory model",
        assumptions=["queries are made in a throw-away fork of each node, so "
                     "explored histories consist of declarations only"])
