"""C16 Rejected declarations leave no trace.

Engine H, differential: the declaration-history explorer of C15 with invalid
declarations (types, units, currencies) injected at every position, at most
two per history.  Oracle without hand-written expectation: (i) a rejected step
leaves the fingerprint of every observable directory and unit operation equal
to its parent's; (ii) all histories with the same accepted steps have the same
fingerprint.  Rejected MoneyConverter updates are explored per object.
"""
from collections import defaultdict

from .. import oracle as O
from ..core import Stats, pmap
from ..hist import fork_call
from fractions import Fraction as F
from . import decl, c15, c11

VALID = ['B1', 'B2', 'N1', 'S', 'V', 'P', 'NB', 'x1', 'y1', 'x1/y1', 'x1²',
         'n1', 'EUR', 'XAB', '?query']
INVALID = c15.INVALID + ['!otherdim2'] + ['!XXQ', '!XAA', '!XAC', '!XAD', '!EURdup']
ROOTS = [[], ['B1', 'B2'], ['B1', 'B2', 'V', 'S', 'x1', 'y1'],
         ['B1', 'N1', 'NB', 'n1', 'EUR'], ['B1', 'B2', 'P', 'EUR', 'XAB']]


def explore(names, depth, total, root):
    groups = defaultdict(dict)
    sgroups = defaultdict(dict)

    def on_rec(rec):
        if 'fp' not in rec:
            return
        for sig, msg in rec['viol']:
            if sig.startswith('C16'):
                total.violation(sig, f"after {root} + {rec['h']}: {msg}",
                                {'root': root, 'history': rec['h']})
            elif sig.startswith('C15:valid-declaration-rejected') and \
                    any(n.startswith('!') for n in rec['h'][:-1]):
                # a valid declaration refused after a rejected one: the
                # rejected attempt was not without trace
                total.violation('C16:valid-declaration-rejected-after-'
                                'rejected-step',
                                f"after {root} + {rec['h'][:-1]}: {msg}",
                                {'root': root, 'history': rec['h']})
        if not rec['ok']:
            # the directory is checked after every step; an incoherence that
            # shows right after a rejected step was left by that step
            for sig, msg in rec['viol']:
                if sig.startswith('C15:') and not sig.startswith(
                        ('C15:invalid-declaration-accepted',
                         'C15:rejection-error-class')):
                    total.violation('C16:rejected-step-left-trace:'
                                    'directory-incoherent',
                                    f"after {root} + {rec['h']}: {msg}",
                                    {'root': root, 'history': rec['h']})
        if not rec['ok'] and rec['parent_fp'] is not None and \
                rec['fp'] != rec['parent_fp']:
            name = rec['h'][-1]
            reason = decl.EVENTS[name][2].split(':')[-1]
            total.violation(f'C16:rejected-step-left-trace:{reason}',
                            f"after {root} + {rec['h'][:-1]}: rejected "
                            f"declaration {decl.EVENTS[name][0]} changed the "
                            "observable directory / results",
                            {'root': root, 'history': rec['h']})
        key = tuple(rec['valid_hist'])
        g = groups[key]
        g.setdefault(rec['fp'], rec['h'])
        sgroups[tuple(rec['strict_hist'])].setdefault(rec['sfp'], rec['h'])
    n, nfp = c15.explore(names, depth, total, prop='C16', max_invalid=2,
                         on_rec=on_rec, root=root)
    for key, g in groups.items():
        total.evaluations += 1
        if len(g) > 1:
            hs = list(g.values())
            total.violation('C16:history-with-rejected-steps-differs',
                            f"root {root}: histories {hs[0]} and {hs[1]} "
                            f"have the same accepted steps {list(key)} but "
                            "different observable directories",
                            {'root': root, 'history': hs[1],
                             'twin': hs[0]})
    for key, g in sgroups.items():
        total.evaluations += 1
        if len(g) > 1 and len(groups[tuple(n for n in key if not
                                           n.startswith('?'))]) == 1:
            hs = list(g.values())
            total.violation('C16:history-with-rejected-steps-differs:'
                            'returned-unit',
                            f"root {root}: histories {hs[0]} and {hs[1]} "
                            f"have the same accepted steps and queries "
                            f"{list(key)}, yet some unit operation returns "
                            "its (equal) value in another unit",
                            {'root': root, 'history': hs[1],
                             'twin': hs[0], 'strict': True})
    return n, nfp, len(groups)


def replay(case):
    if 'converter' in case:
        return c11.replay({'history': case['converter']})
    if 'iso_code_attempts' in case:
        return fork_call(iso_code_attempts)
    if 'rejected_update_keeps_mode' in case:
        return fork_call(rejected_update_keeps_mode)

    def run():
        out = []
        fps = []
        for h in (case['history'], case.get('twin')):
            if h is None:
                continue
            def one(h=h):
                state = decl.make_state(tuple(case.get('root', ())))
                hist, rec = [], None
                res = []
                for name in h:
                    rec = decl.step(state, hist, name)
                    hist = hist + [name]
                    res += [(s, m) for s, m in rec['viol']
                            if s.startswith('C16')]
                    res += [('C16:valid-declaration-rejected-after-rejected'
                             '-step', m) for s, m in rec['viol']
                            if s.startswith('C15:valid-declaration-rejected')
                            and any(n.startswith('!') for n in hist[:-1])]
                    if not rec['ok'] and rec['parent_fp'] is not None \
                            and rec['fp'] != rec['parent_fp']:
                        reason = decl.EVENTS[name][2].split(':')[-1]
                        res.append((f'C16:rejected-step-left-trace:{reason}',
                                    f"{hist}"))
                return res, (rec['sfp'] if case.get('strict') else rec['fp']) \
                if rec else None
            r, fp = fork_call(one)
            out += r
            fps.append(fp)
        if len(fps) == 2 and fps[0] != fps[1]:
            out.append(('C16:history-with-rejected-steps-differs'
                        + (':returned-unit' if case.get('strict') else ''),
                        f"{case['history']} vs {case['twin']}"))
        return out
    return run()


def converter_histories(total, tier):
    """rejected MoneyConverter.update at every position (per object)"""
    from quantity.money import Money
    for c in c11.CUR:
        Money.register_currency(c)
    ok = [('none', 'usd11'), ('none', 'jpy'), ('y2020', 'usd12'),
          ('m03', 'both'), ('d15', 'usdstr'), ('none', 'big')]
    bad = [('none', 'ok+bad'), ('none', 'bad+ok'), ('bad13', 'usd11'),
           ('badx', 'jpy'), ('y2020', 'base'), ('d15', 'ok+bad'),
           ('badf', 'both'), ('m03', 'bad+ok')]
    import itertools
    n = 0
    depth = 3 if tier == 'thorough' else 2
    for k in range(0, depth + 1):
        for valid in itertools.product(ok, repeat=k):
            for pos in range(k + 1):
                for b in bad:
                    for b2 in ([None] + (bad[:3] if tier == 'thorough'
                                         else bad[:1])):
                        hist = list(valid[:pos]) + [b] + \
                            ([b2] if b2 else []) + list(valid[pos:])
                        hist = [list(e) for e in hist]
                        n += 1
                        total.paths += 1
                        for sig, msg in c11.run_history(hist, total):
                            total.violation(
                                'C16:converter:' + sig.split(':', 1)[1], msg,
                                {'converter': hist})
    return n


def iso_code_attempts():
    """Rejected exchange rates / converter updates that name a not yet
    registered currency by its ISO code must not register it (fork)."""
    from datetime import date
    from decimalfp import Decimal
    import quantity
    from quantity.money import Money, MoneyConverter, ExchangeRate
    eur = Money.register_currency('EUR')
    usd = Money.register_currency('USD')
    conv = MoneyConverter(eur, lambda: date(2020, 1, 1))
    attempts = [
        ('update(None, [("CHF", 0.95, 1), (USD, 0, 1)])', 'CHF',
         lambda: conv.update(None, [('CHF', Decimal('0.95'), 1),
                                    (usd, 0, 1)])),
        ('update("x", [("SEK", 10, 1)])', 'SEK',
         lambda: conv.update('x', [('SEK', 10, 1)])),
        ('ExchangeRate("JPY", 100, EUR, -0.62)', 'JPY',
         lambda: ExchangeRate('JPY', 100, eur, Decimal('-0.62'))),
        ('ExchangeRate(EUR, 1.5, "GBP", 1)', 'GBP',
         lambda: ExchangeRate(eur, Decimal('1.5'), 'GBP', 1)),
        ('ExchangeRate("NOK", 1, "NOK", 1)', 'NOK',
         lambda: ExchangeRate('NOK', 1, 'NOK', 1)),
    ]
    out = []
    for what, code, f in attempts:
        before = sorted(u.symbol for u in Money.units())
        try:
            f()
            continue            # accepted: nothing was rejected
        except Exception:
            pass
        after = sorted(u.symbol for u in Money.units())
        known = True
        try:
            quantity.Unit(code)
        except ValueError:
            known = False
        parses = True
        try:
            quantity.Quantity(f"1 {code}")
        except quantity.QuantityError:
            parses = False
        if after != before or known or parses:
            out.append(('C16:currency-registered-by-rejected-rate',
                        f"{what} was rejected but Money.units() went from "
                        f"{before} to {after}; Unit({code!r}) known: {known}"
                        f"; '1 {code}' parses: {parses}"))
    return out


def rejected_update_keeps_mode():
    """(fork) a rejected ExchangeRate / converter update must not leave the
    configured default rounding mode changed"""
    from datetime import date
    from quantity.money import Money, MoneyConverter, ExchangeRate
    eur = Money.register_currency('EUR')
    usd = Money.register_currency('USD')
    gbp = Money.register_currency('GBP')
    out = []
    attempts = [
        ('update(None, [(GBP, 0.85, 1), (USD, 0, 1)])',
         lambda c: c.update(None, [(gbp, O.dec('D:0.85'), 1), (usd, 0, 1)])),
        ('update(None, [(USD, 1.1, 0)])',
         lambda c: c.update(None, [(usd, O.dec('D:1.1'), 0)])),
        ('update("x", [(USD, 1.1, 1)])',
         lambda c: c.update('x', [(usd, O.dec('D:1.1'), 1)])),
        ('ExchangeRate(EUR, 1, USD, -2)',
         lambda c: ExchangeRate(eur, 1, usd, -2)),
        ('ExchangeRate(EUR, 1.5, USD, 2)',
         lambda c: ExchangeRate(eur, O.dec('D:1.5'), usd, 2)),
        ('ExchangeRate(EUR, 1, EUR, 2)',
         lambda c: ExchangeRate(eur, 1, eur, 2)),
    ]
    for mode in O.MODES:
        for what, f in attempts:
            O.set_mode(mode)
            conv = MoneyConverter(eur, lambda: date(2020, 1, 1))
            conv.update(None, [(usd, O.dec('D:2.5'), 1)])
            try:
                f(conv)
                rejected = False
            except Exception:
                rejected = True
            now = O.get_mode()
            tie = O.fr(Money(O.dec('D:0.125'), eur).amount)
            want = O.round_to(F(1, 8), F(1, 100), mode)
            O.set_mode('ROUND_HALF_EVEN')
            if rejected and (now != mode or tie != want):
                out.append(('C16:rejected-rate-changed-rounding-mode',
                            f"default mode {mode}: after the rejected {what} "
                            f"the default mode is {now} and Money(0.125, "
                            f"EUR) = {tie} (expected {want})"))
    return out


def run(tier, seed):
    total = Stats()
    counts = {}
    total.paths += 48
    total.transitions += 48
    total.evaluations += 96
    for sig, msg in fork_call(rejected_update_keeps_mode):
        total.violation(sig, msg, {'rejected_update_keeps_mode': True})
    total.paths += 5
    total.transitions += 5
    total.evaluations += 15
    for sig, msg in fork_call(iso_code_attempts):
        total.violation(sig, msg, {'iso_code_attempts': True})
    if tier == 'thorough':
        plans = [(VALID + INVALID, 3, ROOTS),
                 (VALID[:12] + ['EUR'] + INVALID[:8], 4,
                  [ROOTS[0], ROOTS[2], ROOTS[3]])]
    else:
        k = seed % 4
        inv = INVALID[k:] + INVALID[:k]
        plans = [(VALID + INVALID, 2, ROOTS),
                 (VALID[:12] + ['EUR'] + inv[:6], 3, ROOTS)]
    # operations evaluated (memoised) before a better-fitting unit exists,
    # then rejected declarations: the returned unit must not change
    plans.append((['?query', 'x1/y1', 'x1²', '!dupsym', '!otherdim2',
                   '!empty', '?query2'], 5 if tier == 'thorough' else 4,
                  [ROOTS[2]]))
    # units with one definition in a type without reference unit, an ISO
    # code declared directly and registered afterwards
    plans.append((['n1/x0', 'n1/x0b', 'JPYhand', '!JPYreg', '!dupsym',
                   'n1/x1', 'Tok', 'TokCHF', 'Tok2', 'Tok2SEK'], 5 if tier == 'thorough' else 4,
                  [ROOTS[3]]))
    for names, depth, roots in plans:
        for root in roots:
            n, nfp, ng = explore(names, depth, total, root)
            counts[f"root {'+'.join(root) or 'empty'} / {len(names)} events "
                   f"/ depth {depth}"] = {
                'nodes': n, 'distinct_directories': nfp,
                'groups_with_equal_accepted_steps': ng}
    counts['converter_histories'] = converter_histories(total, tier)
    total.extra['explorations'] = counts
    total.sample({'root': ['B1', 'B2'], 'history': ['S', '!S2', 'x1',
                                                     '!dupsym'],
                  'events': {n: decl.EVENTS[n][0]
                             for n in ['S', '!S2', 'x1', '!dupsym']}})
    return total, dict(
        rule="declaration histories over valid events + 20 invalid ones "
             "(duplicate / empty / non-string symbol, dimension taken with "
             "and without explicit reference symbol, definition of another "
             "type or dimension, wrong base units, unknown ISO code, invalid "
             "currency parameters), at most 2 rejected steps per history, "
             "at every position, from 5 root directories; plus converter "
             "update histories with a rejected update at every position: "
             + '; '.join(f"{k}: {v}" for k, v in counts.items())
             + ". state = fingerprint (directories, symbol look-ups, parses, "
             "outcome of every unit x unit operation)",
        level_text="fault enumeration inside the stateless history explorer "
                   "with a differential (twin-history) oracle",
        assumptions=["fingerprint taken in a throw-away fork of each node"])
