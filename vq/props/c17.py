"""C17 Results do not depend on evaluation history.

Engine H, differential: stateless DFS (fork per node) over all interleavings
of declarations and operations -- operations are evaluated in-process, so they
are part of the history, also before their result type exists, repeated and
in both operand orders.  Oracle: (i) every evaluated operation agrees with the
dimension/declared-type oracle for the directory declared at that moment;
(ii) all histories ending with the same declared set give the same results
for the complete probe set (evaluated in a throw-away fork).
"""
import functools
from collections import defaultdict
from fractions import Fraction as F

from .. import oracle as O
from ..core import Stats, h64
from ..hist import run_dfs, fork_call
from . import decl, c02

OPS = {
    'o:x1/y1:qq': ('bin', '/', 'qq', 'x1', 'i:6', 'y1', 'i:3'),
    'o:x1/y1:uu': ('bin', '/', 'uu', 'x1', 'i:1', 'y1', 'i:1'),
    'o:x1/y1:uq': ('bin', '/', 'uq', 'x1', 'i:1', 'y1', 'i:4'),
    'o:v*y1': ('bin', '*', 'qq', 'x1/y1', 'D:2.5', 'y1', 'i:4'),
    'o:y1*v': ('bin', '*', 'qq', 'y1', 'i:4', 'x1/y1', 'D:2.5'),
    'o:x1*x1': ('bin', '*', 'qq', 'x1', 'i:3', 'x1', 'D:0.5'),
    'o:x0*x1:uu': ('bin', '*', 'uu', 'x0', 'i:1', 'x1', 'i:1'),
    'o:x1**2': ('pow', 'q', 'x1', 'i:3', 2),
    'o:1/y1': ('num', 'k/q', 'y1', 'i:4', 'i:1'),
    'o:y1*f0': ('bin', '*', 'qq', 'y1', 'i:2', 'f0', 'i:3'),
    'o:x1*y1:uq': ('bin', '*', 'uq', 'x1', 'i:1', 'y1', 'i:2'),
    'o:x1*y1:qq': ('bin', '*', 'qq', 'x1', 'i:3', 'y1', 'i:1'),
    'o:y1*x1:qu': ('bin', '*', 'qu', 'y1', 'i:5', 'x1', 'i:1'),
    'o:vt2/v0:qq': ('bin', '/', 'qq', 'vt2', 'i:36', 'x0/y0', 'i:10'),
    'o:vt2*v0:uu': ('bin', '*', 'uu', 'vt2', 'i:1', 'x0/y0', 'i:1'),
    # results rounded to a currency's smallest fraction (ties and near ties)
    'o:$eur/2': ('num', 'q/k', 'EUR', 'D:5.01', 'i:2'),
    'o:$eur*k': ('num', 'q*k', 'EUR', 'D:1.01', 'D:0.5'),
    'o:$xab/3': ('num', 'q/k', 'XAB', 'D:0.40', 'i:3'),
    'o:$eur*0': ('num', 'q*k', 'EUR', 'D:4.00', 'i:0'),
    # apportioning one quantum three ways (portions of zero, one of which
    # receives the dispersed remainder)
    'o:$alloc': ('alloc', 'EUR', 'D:0.01', ['i:1', 'i:1', 'i:1']),
    # quotients inside a type without reference unit (units of one base
    # unit, differently scaled): unit / unit first, then quantities
    'o:n1x0/n1x1:uu': ('bin', '/', 'uu', 'n1/x0', 'i:1', 'n1/x1', 'i:1'),
    'o:n1x0/n1x1:qq': ('bin', '/', 'qq', 'n1/x0', 'i:5', 'n1/x1', 'i:2'),
    'o:n1x0/n1x1:uq': ('bin', '/', 'uq', 'n1/x0', 'i:1', 'n1/x1', 'i:2'),
    'o:n1/x0:qq': ('bin', '/', 'qq', 'n1', 'i:6', 'x0', 'i:3'),
    'o:n1/x1:qu': ('bin', '/', 'qu', 'n1', 'i:6', 'x1', 'i:1'),
    'o:n1/x1:uu': ('bin', '/', 'uu', 'n1', 'i:1', 'x1', 'i:1'),
}
for _k in list(OPS):
    OPS[_k + '#2'] = OPS[_k]          # the same operation repeated


def operands(name):
    spec = OPS[name]
    if spec[0] == 'bin':
        return [spec[3], spec[5]]
    if spec[0] == 'alloc':
        return [spec[1]]
    return [spec[2]]


MODES = {'m:UP': 'ROUND_UP', 'm:FLOOR': 'ROUND_FLOOR',
         'm:HALF_UP': 'ROUND_HALF_UP'}


def evaluate(w, name):
    """-> violations of the real operation against the oracle *now*"""
    spec = OPS[name]
    if name.startswith('o:$'):
        # money arithmetic has its own oracle (C10); here the operation is
        # only evaluated so that it is part of the history
        canonical(w, name)
        return []
    if spec[0] == 'bin':
        res = c02.run_binop(w, *spec[1:])
    elif spec[0] == 'pow':
        res = c02.run_pow(w, *spec[1:])
    else:
        res = c02.run_num(w, *spec[1:])
    return [('C17:' + s.split(':', 1)[1], m) for s, m in res]


def canonical(w, name):
    """value-based result of an operation (for the pairwise comparison)"""
    import operator
    spec = OPS[name]
    try:
        if spec[0] == 'bin':
            _, op, kind, s1, a1, s2, a2 = spec
            x, y, _, _ = c02.operands(w, kind, s1, a1, s2, a2)
            r = operator.mul(x, y) if op == '*' else operator.truediv(x, y)
        elif spec[0] == 'pow':
            _, kind, s, a, n = spec
            u = w.units[s]
            r = u.qty_cls(O.dec(a), u) ** n
        elif spec[0] == 'alloc':
            _, s, a, ratios = spec
            u = w.units[s]
            portions, rem = u.qty_cls(O.dec(a), u).allocate(
                [O.dec(r) for r in ratios])
            return ('alloc', tuple(str(O.fr(p.amount)) for p in portions),
                    str(O.fr(rem.amount)))
        elif spec[1] == 'q/k':
            _, form, s, a, k = spec
            u = w.units[s]
            r = u.qty_cls(O.dec(a), u) / O.dec(k)
        elif spec[1] == 'q*k':
            _, form, s, a, k = spec
            u = w.units[s]
            r = u.qty_cls(O.dec(a), u) * O.dec(k)
        else:
            _, form, s, a, k = spec
            u = w.units[s]
            r = O.dec(k) / u.qty_cls(O.dec(a), u)
    except Exception as exc:
        return type(exc).__name__
    if isinstance(r, tuple):
        amt, unit = r
    elif hasattr(r, 'unit'):
        amt, unit = r.amount, r.unit
    else:
        return ('number', str(O.fr(r)))
    if unit is None:
        return ('number', str(O.fr(amt)))
    um = w.um.get(unit.symbol)
    if um is None:
        return ('unknown-unit', unit.symbol)
    return (unit.qty_cls.__name__, str(O.fr(amt) * um.ufac),
            tuple(um.udim))


def probe_all(w):
    out = {}
    for name in sorted(OPS):
        if name.endswith('#2'):
            continue
        if all(s in w.um for s in operands(name)):
            out[name] = canonical(w, name)
            out[name + ':again'] = canonical(w, name)
    return out


def step(state, hist, name):
    w = state['w']
    viol = []
    if name.startswith('o:'):
        viol = evaluate(w, name)
        state['done'] = state['done'] + [name]
        ok = True
    elif name.startswith('m:'):
        # the default rounding mode is switched: from here on results are
        # compared with histories that end in the same mode
        O.set_mode(MODES[name])
        state['mode'] = name
        state['done'] = state['done'] + [name]
        ok = True
    else:
        rec = decl.step(state, hist, name, with_ops=False)
        viol = [(s, m) for s, m in rec['viol']]
        ok = rec['ok']
        if rec.get('stop'):
            return dict(rec, declared=None)
    probes = fork_call(probe_all, w)
    declared = sorted(n for n in state['done'] if not n.startswith('o:')
                      and not n.startswith('?') and not n.startswith('m:'))
    declared.append(state.get('mode', 'm:default'))
    rep = [k for k in probes if k.endswith(':again')
           and probes[k] != probes[k[:-6]]]
    for k in rep:
        viol.append(('C17:repeat-differs', f"{k[:-6]}: {probes[k[:-6]]} then "
                     f"{probes[k]}"))
    return {'h': hist + [name], 'ok': ok, 'viol': viol,
            'declared': declared, 'probes': probes,
            'fp': h64(sorted(probes.items())), 'n_ops':
            sum(1 for n in hist + [name] if n.startswith('o:'))}


def explore(root, names, depth, total):
    groups = defaultdict(dict)

    def enabled(state, hist):
        w = state['w']
        out = []
        for n in names:
            if n in state['done']:
                continue
            if n.startswith('o:'):
                if n.endswith('#2') and n[:-2] not in state['done']:
                    continue
                if all(s in w.um for s in operands(n)):
                    out.append(n)
            elif n.startswith('m:'):
                out.append(n)
            else:
                ev, req, kind = decl.EVENTS[n]
                if all(decl.exists(w, r) for r in req):
                    out.append(n)
        return out

    def on_record(rec):
        total.paths += 1
        total.transitions += 1
        if 'crash' in rec:
            total.violation('C17:explorer-crash', rec['crash'][-300:],
                            {'root': root, 'history': rec['h']})
            return
        for sig, msg in rec['viol']:
            total.violation(sig, f"after {root} + {rec['h'][:-1]}: "
                            f"{rec['h'][-1]}: {msg}",
                            {'root': root, 'history': rec['h']})
        if rec.get('declared') is None:
            return
        total.evaluations += len(rec['probes'])
        total.state((tuple(root), tuple(rec['declared']), rec['fp']),
                    nontrivial=rec['n_ops'] > 0)
        total.outcomes['operation' if rec['h'][-1].startswith('o:')
                       else 'declaration'] += 1
        g = groups[tuple(rec['declared'])]
        g.setdefault(rec['fp'], (rec['h'], rec['probes']))
    n = run_dfs(functools.partial(decl.make_state, tuple(root)), enabled,
                step, depth, on_record, split_depth=2)
    for key, g in groups.items():
        if len(g) > 1:
            (h1, p1), (h2, p2) = list(g.values())[:2]
            diff = [k for k in p1 if p1.get(k) != p2.get(k)]
            k = diff[0] if diff else '?'
            total.violation('C17:history-dependent-result',
                            f"root {root}, declared {list(key)}: operation "
                            f"{k} gives {p1.get(k)} after {h1} but "
                            f"{p2.get(k)} after {h2}",
                            {'root': root, 'history': h2, 'twin': h1,
                             'operation': k})
    return n, len(groups)


def replay(case):
    def one(h):
        state = decl.make_state(tuple(case.get('root', ())))
        hist, rec, out = [], None, []
        for name in h:
            rec = step(state, hist, name)
            hist = hist + [name]
            out += rec['viol']
        return out, (rec or {}).get('probes')
    out, p = fork_call(one, case['history'])
    if case.get('twin') is not None:
        out2, p2 = fork_call(one, case['twin'])
        if p != p2:
            out.append(('C17:history-dependent-result',
                        f"{case['history']} vs {case['twin']}"))
    return out


DECLS = ['V', 'S', 'P', 'F', 'x1/y1', 'vdup', 'vt', 'vt2']
ROOT_A = ['B1', 'B2', 'x1', 'y1']
OPS_A = [n for n in OPS if not n.startswith('o:n1')
         and not n.startswith('o:$')]
ROOT_N = ['B1', 'N1', 'n1', 'x1']
DECLS_N = ['NB', 'n1/x0', 'n1/x1']
OPS_N = [n for n in OPS if n.startswith('o:n1')]
ROOT_M = ['EUR', 'XAB']
NAMES_M = ['m:UP', 'm:FLOOR', 'm:HALF_UP', 'o:$eur/2', 'o:$eur*k',
           'o:$xab/3', 'o:$eur/2#2', 'o:$alloc', 'o:$eur*0']
FOCUS_V = ['V', 'x1/y1', 'vdup', 'vt2', 'o:vt2/v0:qq', 'o:x1/y1:qq', 'o:x1/y1:uu', 'o:x1/y1:uq',
           'o:v*y1', 'o:y1*v', 'o:x1/y1:qq#2']
FOCUS_P = ['P', 'S', 'o:x1*y1:uq', 'o:x1*y1:qq', 'o:y1*x1:qu', 'o:x1*x1',
           'o:x0*x1:uu', 'o:x1**2', 'o:x1*y1:qq#2']


def run(tier, seed):
    total = Stats()
    counts = {}
    if tier == 'thorough':
        plans = [(ROOT_A, DECLS + OPS_A, 3), (ROOT_A, FOCUS_V, 5),
                 (ROOT_A, FOCUS_P, 5), (ROOT_N, DECLS_N + OPS_N, 5),
                 (ROOT_M, NAMES_M, 6)]
    else:
        nosecond = [n for n in OPS_A if not n.endswith('#2')]
        plans = [(ROOT_A, DECLS + nosecond, 3), (ROOT_A, FOCUS_V, 4),
                 (ROOT_A, FOCUS_P, 4), (ROOT_N, DECLS_N + OPS_N, 4),
                 (ROOT_M, NAMES_M, 5)]
    for root, names, depth in plans:
        n, ng = explore(root, names, depth, total)
        counts[f"root {'+'.join(root)} / {len(names)} events / depth "
               f"{depth}"] = {'nodes': n, 'declared_sets': ng}
    total.extra['explorations'] = counts
    total.sample({'root': ROOT_A, 'history': ['o:x1/y1:qq', 'V',
                                              'o:x1/y1:qq#2', 'x1/y1'],
                  'meaning': 'quotient attempted before Velocity-like type '
                             'V exists (must raise), V declared, same '
                             'quotient again (must succeed), unit declared'})
    return total, dict(
        rule="events = declarations (derived types, units incl. a second "
             "unit of equal scale, a term-defined unit, units of a type "
             "without reference unit) interleaved with operations evaluated "
             "in-process (quotients, products, powers, k/q, cancelling "
             "products; quantity/unit operand kinds; both operand orders; "
             "each repeatable) and, from a root with two currencies, switches of "
             "the default rounding mode interleaved with money operations "
             "that hit ties: "
             + '; '.join(f"{k}: {v['nodes']} nodes, {v['declared_sets']} "
                         "declared sets" for k, v in counts.items())
             + ". state = (declared set, fingerprint of all probe results); "
             "non-trivial = at least one operation in the history",
        level_text="stateless model checking with a differential oracle "
                   "(same declared set => same results) plus the C02 oracle "
                   "on every evaluated operation",
        assumptions=["results are compared by value (type, amount in base "
                     "units), not by the unit chosen for the result"])
