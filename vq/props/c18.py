"""C18 Construction is exact and the text form round-trips.

Engine V: every numeric spelling x every registered unit (catalogue,
currencies, user units with compound and non-ASCII symbols) x both factories;
str/format; parse(str(q)) by both factories; parse with every other unit of
the type; a token grammar of malformed strings.
"""
import decimal as stddec
import itertools
from fractions import Fraction as F

from .. import oracle as O
from ..core import Stats, guarded, pmap
from ..world import World

NUMS = ['i:0', 'i:7', 'i:-1', 'i:1000000000000', 'b:True',
        'D:0.5', 'D:-2.5', 'D:1.005', 'D:0.000001', 'D:123456789.123456789',
        'F:1/3', 'F:-2/7', 'F:1/2', 'F:22/7',
        'f:0.1', 'f:2.5', 'f:1e-30', 'f:5e-324', 'f:1e+300', 'f:-0.0',
        'S:1.5', 'S:-0.125', 'S:1E+3',
        'S:12345678901234567890.12345678901',
        'S:0.1000000000000000055511151231257827021181583404541015625',
        's:17', 's:-2.5', 's:1e3', 's:1E-3', 's:.5', 's:5.', 's:+3',
        's:1/3', 's:-22/7', 's:  7', 's:0.000001']
USER = [
    ['type', 'R', 'Ω', None],
    ['unit', 'R', 'kΩ', ['scaled', 'i:1000', 'Ω']],
    ['type', 'T2', 's2', None],
    ['dtype', 'RT', [['R', 1], ['T2', 1]], None, None],
    ['unit', 'RT', 'kΩ·s2', ['derive', ['kΩ', 's2']]],
    ['dtype', 'RpT', [['R', 1], ['T2', -2]], None, None],
    ['type', 'Pct', '%', 'D:0.01'],
    ['unit', 'Pct', '‰', ['term', [['D:0.1', 1], ['%', 1]]]],
    ['unit', 'R', '\u2126', ['scaled', 'D:0.5', 'Ω']],        # OHM SIGN
    ['unit', 'R', 'k\u2126', ['scaled', 'i:500', 'Ω']],
    ['type', 'Lx', '\u212b', None],                          # ANGSTROM SIGN
    ['unit', 'Lx', 'e\u0301m', ['scaled', 'i:10', '\u212b']],  # combining
    ['type', 'NR', None, None],
    ['unit', 'NR', 'µx', ['none']],
    ['unit', 'NR', 'x y', ['none']],
    # symbols with blanks at their ends and inside
    ['unit', 'R', 'zz ', ['scaled', 'i:7', 'Ω']],
    ['unit', 'R', ' zy', ['scaled', 'i:9', 'Ω']],
    ['unit', 'NR', 'a  b', ['none']],
]
CURRENCIES = ['EUR', 'JPY', 'TND', 'CLF', 'USD', 'BHD']


def number(code):
    if code.startswith('s:'):
        return code[2:]
    return O.dec(code)


def make_world():
    from .c01 import build_world
    w = World(catalogue=True)
    # every user symbol is looked up and parsed once BEFORE it exists (must
    # fail), so that a memoised miss would be visible afterwards
    for ev in USER:
        sym = ev[2] if ev[0] in ('type', 'unit') else ev[3]
        if isinstance(sym, str):
            for f in (lambda: w.q.Unit(sym), lambda: w.q.Quantity(f"1 {sym}")):
                try:
                    r = f()
                except ValueError:
                    continue
                from ..world import SetupViolated
                raise SetupViolated('undeclared-symbol-resolves',
                                    f"the symbol {sym!r} is not declared, "
                                    f"but Unit / Quantity text with it gives "
                                    f"{r!r}")
    for ev in USER:
        w.must(ev)
    w.sf = {}
    functional, _ = O.iso_table()
    for c in CURRENCIES:
        w.must(['cur', c])
        (minor,) = functional[c]['minor']
        w.sf[c] = F(1, 10 ** minor)
    # prices: a type without reference unit whose units have no common scale
    w.must(['dtype', 'PPM', [['Money', 1], ['Mass', -1]], None, None])
    for c, m in (('EUR', 'kg'), ('USD', 'kg'), ('USD', 'g')):
        w.must(['unit', 'PPM', f'{c}/{m}', ['derive', [c, m]]])
    return w


def grid(w, sym):
    um = w.um[sym]
    if um.tname == 'Money':
        return w.sf[sym]
    tm = w.tm[um.tname]
    if tm.quantum is None:
        return None
    return tm.quantum / um.scale


@guarded('C18')
def run_construct(w, sym, code, st=None):
    Q = w.q
    u = w.units[sym]
    cls = u.qty_cls
    x = O.val(code)
    g = grid(w, sym)
    want = x if g is None else O.round_to(x, g, 'ROUND_HALF_EVEN')
    out = []
    v = number(code)
    made = []
    for fname, f in (('own', lambda: cls(v, u)),
                     ('generic', lambda: Q.Quantity(v, u))):
        try:
            q = f()
        except Exception as exc:
            out.append((f'C18:construct:raises:{code[0]}',
                        f"{fname} factory ({v!r}, {sym}): "
                        f"{type(exc).__name__}: {exc}"))
            continue
        if st is not None:
            st.transitions += 1
            st.evaluations += 1
        if type(q) is not cls or q.unit is not u:
            out.append(('C18:construct:type', f"{fname} ({v!r}, {sym}) -> "
                        f"{q!r}"))
            continue
        a = q.amount
        if isinstance(a, float) or not O.is_exact(a) or O.fr(a) != want:
            out.append((f'C18:construct:value:{code[0]}',
                        f"{fname} factory ({v!r}, {sym}) holds {a!r}, "
                        f"expected exactly {want}"))
            continue
        made.append(q)
    for q in made[:1]:
        out += text_round_trip(w, q, st)
    return out


PC_CODES = ['D:1.005', 'F:-2/7', 'i:1000000000000', 'D:0.000001', 'F:22/7',
            'D:-123456789.123456789', 'i:0']
TINY_TEXT = ['1e-65536', '-25E-65540', '0.5e-70000']
TINY_UNITS = ['m', 'km', 'kg', 'K']        # (types without quantum)


@guarded('C18')
def run_tiny_text(w, sym, text, st=None):
    """numeric strings with more fractional digits than a decimalfp Decimal
    can hold (65535): still "exactly that number's rational value".  No
    text round trip here: CPython refuses to print ints of that size."""
    Q = w.q
    u = w.units[sym]
    cls = u.qty_cls
    x = F(stddec.Decimal(text))
    g = grid(w, sym)
    want = x if g is None else O.round_to(x, g, 'ROUND_HALF_EVEN')
    out = []
    for fname, f in (('own-with-unit', lambda: cls(text, u)),
                     ('generic', lambda: Q.Quantity(f"{text} {sym}")),
                     ('own', lambda: cls(f"{text} {sym}"))):
        try:
            q = f()
        except Exception as exc:
            out.append(('C18:construct:raises:tiny-text',
                        f"{fname} factory with {text!r} and {sym}: "
                        f"{type(exc).__name__}: {str(exc)[:80]}"))
            continue
        if st is not None:
            st.transitions += 1
            st.evaluations += 1
        a = q.amount
        if type(q) is not cls or q.unit is not u or isinstance(a, float) \
                or O.fr(a) != want:
            out.append(('C18:construct:value:tiny-text',
                        f"{fname} factory with {text!r} and {sym} does not "
                        "hold exactly that value"))
    return out


def text_round_trip(w, q, st=None):
    Q = w.q
    out = []
    cls, u = type(q), q.unit
    s = str(q)
    if s != f"{q.amount} {u.symbol}" or format(q) != s or \
            f"{q}" != s:
        out.append(('C18:text:str', f"str({q!r}) = {s!r}, format = "
                    f"{format(q)!r}"))
    forms = [('generic', lambda: Q.Quantity(s)), ('own', lambda: cls(s))]
    if u.symbol == u.symbol.strip():
        # (a symbol with blanks at its ends is only found as it is written)
        forms += [('padded', lambda: Q.Quantity('  ' + s + '  ')),
                  ('two-blanks', lambda: Q.Quantity(s.replace(' ', '  ', 1)))]
    else:
        forms += [('padded', lambda: Q.Quantity('  ' + s))]
    for fname, f in forms:
        try:
            r = f()
        except Exception as exc:
            out.append(('C18:text:parse-raises', f"{fname} parse of {s!r}: "
                        f"{type(exc).__name__}: {exc}"))
            continue
        if st is not None:
            st.transitions += 1
            st.evaluations += 1
        if type(r) is not cls or r.unit is not u or \
                O.fr(r.amount) != O.fr(q.amount):
            out.append(('C18:text:round-trip', f"{fname} parse of {s!r} = "
                        f"{r!r}, original {q!r}"))
    return out


@guarded('C18')
def run_parse_convert(w, sym, sym2, code, st=None):
    """parsing with an explicit different unit == parse, then convert"""
    Q = w.q
    u, u2 = w.units[sym], w.units[sym2]
    cls = u.qty_cls
    q = cls(O.dec(code), u)
    s = str(q)
    want = q.convert(u2)
    out = []
    for fname, f in (('generic', lambda: Q.Quantity(s, u2)),
                     ('own', lambda: cls(s, u2))):
        r = f()
        if st is not None:
            st.transitions += 1
            st.evaluations += 1
        if type(r) is not cls or r.unit is not u2 or \
                O.fr(r.amount) != O.fr(want.amount):
            out.append(('C18:text:explicit-unit', f"{fname}({s!r}, {sym2}) "
                        f"= {r!r}, parse-then-convert gives {want!r}"))
    # model: value is preserved
    if w.um[sym].scale is not None and grid(w, sym2) is None:
        v = O.fr(q.amount) * w.um[sym].scale / w.um[sym2].scale
        if O.fr(want.amount) != v:
            out.append(('C18:text:explicit-unit-value', f"{s!r} in {sym2}: "
                        f"{want!r}, expected {v}"))
    return out


@guarded('C18')
def run_parse_unconvertible(w, sym, sym2, st=None):
    Q = w.q
    u, u2 = w.units[sym], w.units[sym2]
    cls = u.qty_cls
    out = []
    for code in ('i:5', 'F:7/3'):
        s = str(cls(O.dec(code), u))
        for fname, f in (('generic', lambda: Q.Quantity(s, u2)),
                         ('own', lambda: cls(s, u2))):
            if st is not None:
                st.transitions += 1
                st.evaluations += 1
            try:
                r = f()
            except Q.QuantityError:
                continue
            except Exception as exc:
                r = exc
            out.append(('C18:text:explicit-unit:unconvertible',
                        f"{fname}({s!r}, {sym2}) = {r!r}; {sym} and {sym2} "
                        "have no common scale and no converter is "
                        "registered"))
    return out


BAD_NUM = ['', 'abc', '1..5', '--1', '1e', '1/0', 'inf', 'nan', '1/', '/2',
           '1,5', '0x10', '1/2/3', '-', '1e1.5', 'NaN', '-inf', '1 /2',
           '١٢'.replace('١٢', 'one'), '5/0.0', '1/-0']
GOOD_NUM = ['5', '-2.5', '1/3']


@guarded('C18')
def run_malformed(w, text, fname):
    Q = w.q
    f = {'generic': lambda: Q.Quantity(text),
         'Length': lambda: w.types['Length'](text),
         'Money': lambda: w.types['Money'](text)}[fname]
    try:
        r = f()
    except Q.QuantityError:
        return []
    except Exception as exc:
        return [(f'C18:malformed:{type(exc).__name__}',
                 f"{fname}({text!r}) raised {type(exc).__name__}: {exc} "
                 "instead of QuantityError")]
    return [('C18:malformed:accepted', f"{fname}({text!r}) = {r!r}")]


def malformed_texts():
    out = []
    for n in BAD_NUM:
        for sep in (' ', ''):
            for symb in ('m', 'EUR', 'zz', ''):
                t = n + sep + symb
                if t.strip() in ('m', 'EUR'):
                    pass
                out.append(t)
    for n in GOOD_NUM:
        for symb in ('zz', 'M', 'eur', 'm m', 'km/hh', 'm²²', '°'):
            out.append(f"{n} {symb}")
        out.append(n + 'm')            # no separator
        out.append(n + '\tm')
    out += ['m 5', 'm', ' ', 'five m', '5 m 3', '1_0 m_']
    seen, uniq = set(), []
    for t in out:
        if t not in seen:
            seen.add(t)
            uniq.append(t)
    return uniq


def part_units(syms, nums):
    st = Stats()
    w = make_world()
    for sym in syms:
        for code in nums:
            st.paths += 1
            st.state((sym, code), nontrivial=code not in ('i:0',))
            for sig, msg in run_construct(w, sym, code, st):
                st.violation(sig, msg, {'construct': [sym, code]})
        for text in TINY_TEXT if sym in TINY_UNITS else ():
            st.paths += 1
            st.state((sym, 'tiny', text), nontrivial=True)
            for sig, msg in run_tiny_text(w, sym, text, st):
                st.violation(sig, msg, {'tiny_text': [sym, text]})
        tm = w.tm[w.um[sym].tname]
        if w.um[sym].scale is not None:
            for sym2 in tm.units:
                if sym2 == sym:
                    continue
                for code in PC_CODES[:3 if len(nums) <= len(NUMS) else None]:
                    st.paths += 1
                    for sig, msg in run_parse_convert(w, sym, sym2, code,
                                                      st):
                        st.violation(sig, msg, {'parse_convert':
                                                [sym, sym2, code]})
        elif tm.name in ('PPM', 'NR'):
            # no common scale, no converter: text with an explicit unit
            # of another kind is no quantity
            for sym2 in tm.units:
                if sym2 == sym:
                    continue
                st.paths += 1
                for sig, msg in run_parse_unconvertible(w, sym, sym2, st):
                    st.violation(sig, msg, {'parse_unconvertible':
                                            [sym, sym2]})
    return st


def part_malformed(texts):
    st = Stats()
    w = make_world()
    for t in texts:
        for fname in ('generic', 'Length', 'Money'):
            if fname != 'generic' and t.strip() in GOOD_NUM:
                continue
            st.paths += 1
            st.transitions += 1
            st.evaluations += 1
            st.state(('malformed', t, fname), nontrivial=True)
            for sig, msg in run_malformed(w, t, fname):
                st.violation(sig, msg, {'malformed': [t, fname]})
    return st


def replay(case):
    w = make_world()
    if 'construct' in case:
        return run_construct(w, *case['construct'])
    if 'tiny_text' in case:
        return run_tiny_text(w, *case['tiny_text'])
    if 'parse_convert' in case:
        return run_parse_convert(w, *case['parse_convert'])
    if 'parse_unconvertible' in case:
        return run_parse_unconvertible(w, *case['parse_unconvertible'])
    return run_malformed(w, *case['malformed'])


def run(tier, seed):
    total = Stats()
    syms = list(O.UNIT_REF) + ['Ω', 'kΩ', 's2', 'kΩ·s2', '%', '‰', 'µx',
                               'x y', '\u2126', 'k\u2126', '\u212b',
                               'e\u0301m', 'zz ', ' zy', 'a  b',
                               'EUR/kg', 'USD/kg', 'USD/g'] + CURRENCIES
    nums = list(NUMS)
    if tier == 'thorough':
        # the whole amount pool of the other checks, each number as object
        # and as text (Decimals also as float and in exponent notation)
        from . import amounts as A
        for code in A.BASE + A.EXTRAS:
            v = O.val(code)
            nums.append(code)
            if code[0] == 'F':
                nums.append('s:' + code[2:])
            else:
                nums.append('s:' + code[2:])
                nums.append('S:' + code[2:])
                if len(code) < 14:
                    nums.append('f:' + code[2:])
                    nums.append(f"s:{code[2:]}e0")
        nums = list(dict.fromkeys(nums))
    total.merge(pmap(part_units, [syms[i::16] for i in range(16)], (nums,),
                     fresh=True))
    texts = malformed_texts()
    total.merge(pmap(part_malformed, [texts[i::8] for i in range(8)],
                     fresh=True))
    total.sample({'construct': ['µm', 'f:5e-324'],
                  'meaning': 'smallest subnormal float, exact binary value'})
    total.sample({'construct': ['kΩ·s2', 's:-22/7']})
    total.sample({'malformed': ['1/0 m', 'generic']})
    total.extra['units'] = len(syms)
    total.extra['numeric_spellings'] = len(nums)
    total.extra['malformed_texts'] = len(texts)
    return total, dict(
        rule=f"{len(nums)} numeric spellings (int, bool, Decimal, Fraction, "
             "float incl. 5e-324 and 1e300, stdlib Decimal, strings incl. "
             f"exponent and n/d forms) x {len(syms)} registered units "
             "(113 predefined, 8 user units with non-ASCII / compound "
             "symbols, 6 currencies) x both factories; str/format and 4 "
             "parse variants of every constructed quantity; parse with every "
             f"other unit of the type; {len(texts)} malformed texts x 3 "
             "factories. non-trivial = amount != 0",
        level_text="bounded exhaustive enumeration; oracle = Fraction(x) "
                   "(exact binary value for floats), grid-rounded for "
                   "quantized types",
        assumptions=["only text must fail with QuantityError; non-finite "
                     "floats and non-numeric objects are outside the "
                     "statement"])
