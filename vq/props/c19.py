"""C19 Objects that compare equal hash equal.

Engine V: all pairs of objects that the implementation itself reports equal
among quantities across all unit pairs of every type (Decimal and Fraction
holders), units of one type, terms, exchange rates; hash(a) == hash(b) and
len({a, b}) == 1.  Runs in a fresh fork (declares user units / currencies).
"""
from fractions import Fraction as F

from .. import oracle as O
from ..core import Stats, guarded, pmap
from ..world import World
from . import amounts as A

USER = [
    ['type', 'B1', 'x0', None],
    ['unit', 'B1', 'x1', ['scaled', 'i:1000', 'x0']],
    ['unit', 'B1', 'x1b', ['term', [['i:10', 1], ['x0', 1], ['i:100', 1]]]],
    ['unit', 'B1', 'x1c', ['scaled', 'D:0.001', 'x1']],
    ['unit', 'B1', 'x512', ['scaled', 'i:512', 'x0']],
    # plain int factors given as terms that are normalised as they are; the
    # ratio of the two scales is no binary fraction
    ['unit', 'B1', 'xt3', ['term', [['i:3', 1], ['x0', 1]]]],
    ['unit', 'B1', 'xt7', ['term', [['i:7', 1], ['x0', 1]]]],
    ['unit', 'B1', 'xneg', ['scaled', 'F:-1/4', 'x0']],      # negative scale
    ['unit', 'B1', 'xneg2', ['scaled', 'D:-0.25', 'x0']],
    ['unit', 'B1', 'x2e70', ['scaled', 'i:1180591620717411303424', 'x0']],
    ['unit', 'B1', 'x2e61', ['scaled', 'i:2305843009213693952', 'x0']],
    ['type', 'B2', 'y0', None],
    ['dtype', 'V', [['B1', 1], ['B2', -1]], None, None],
    ['unit', 'V', 'x1/y0', ['derive', ['x1', 'y0']]],
    ['unit', 'V', 'v1000', ['scaled', 'i:1000', 'x0/y0']],
    ['type', 'N', None, None],
    ['unit', 'N', 'n1', ['none']], ['unit', 'N', 'n2', ['none']],
    ['unit', 'N', 'n1alias', ['scaled', 'i:1', 'n1']],
    ['unit', 'N', 'n1k', ['scaled', 'i:1000', 'n1']],
    ['unit', 'N', 'n1k2', ['term', [['i:10', 1], ['n1', 1], ['i:100', 1]]]],
    ['dtype', 'NB', [['N', 1], ['B1', -1]], None, None],
    ['unit', 'NB', 'n1/x0', ['derive', ['n1', 'x0']]],
    ['unit', 'NB', 'n2/x0', ['derive', ['n2', 'x0']]],
    ['unit', 'NB', 'n1/x1', ['derive', ['n1', 'x1']]],
]


def make_world():
    w = World(catalogue=True)
    for ev in USER:
        w.must(ev)
    for c in ('EUR', 'USD', 'JPY'):
        w.must(['cur', c])
    w.must(['dtype', 'PPM', [['Money', 1], ['Mass', -1]], None, None])
    for c, m in (('EUR', 'kg'), ('USD', 'kg'), ('EUR', 'g')):
        w.must(['unit', 'PPM', f'{c}/{m}', ['derive', [c, m]]])
    return w


def holders(x):
    from decimalfp import Decimal
    out = [F(x)]
    try:
        out.insert(0, Decimal(F(x)))
    except ValueError:
        pass
    return out


def coherent(a, b, what, tag):
    """a == b was observed; hashes and set behaviour must agree"""
    out = []
    try:
        ha, hb = hash(a), hash(b)
    except TypeError as exc:
        return [(tag + ':unhashable', f"{what}: {exc}")]
    if ha != hb:
        out.append((tag, f"{what}: equal but hash(a) != hash(b)"))
    elif len({a, b}) != 1 or len({b: 1, a: 2}) != 1:
        out.append((tag + ':set', f"{what}: equal, same hash, but a set "
                    "holds both"))
    return out


@guarded('C19')
def run_qty_pair(w, tname, s1, s2, code, st=None):
    cls = w.types[tname]
    x = O.val(code)
    sc1, sc2 = w.um[s1].scale, w.um[s2].scale
    y = x * sc1 / sc2
    out = []
    for h1 in holders(x):
        for h2 in holders(y):
            q1, q2 = cls(h1, w.units[s1]), cls(h2, w.units[s2])
            if st is not None:
                st.transitions += 1
            if q1 == q2:
                if st is not None:
                    st.evaluations += 1
                    st.outcomes['equal'] += 1
                tag = 'C19:qty-hash:' + ('same-unit' if s1 == s2
                                         else 'cross-unit')
                out += coherent(q1, q2, f"{q1!r} == {q2!r}", tag)
            elif st is not None:
                st.outcomes['unequal'] += 1
    return out


@guarded('C19')
def run_noscale_pair(w, tname, s1, s2, code, st=None):
    """units without a common scale: the same amount in both units (the only
    candidates for equality without a converter, zero included)"""
    cls = w.types[tname]
    x = O.val(code)
    conv = bool(list(cls.registered_converters()))
    out = []
    for h1 in holders(x):
        for h2 in holders(x):
            q1, q2 = cls(h1, w.units[s1]), cls(h2, w.units[s2])
            if st is not None:
                st.transitions += 1
            if q1 == q2:
                if st is not None:
                    st.evaluations += 1
                    st.outcomes['equal-noscale'] += 1
                tag = 'C19:qty-hash:' + (
                    'same-unit' if s1 == s2 else
                    'converter' if conv else 'noscale-cross-unit')
                out += coherent(q1, q2, f"{q1!r} == {q2!r}", tag)
            elif st is not None:
                st.outcomes['unequal-noscale'] += 1
    return out


@guarded('C19')
def run_unit_pair(w, s1, s2, st=None):
    u1, u2 = w.units[s1], w.units[s2]
    if st is not None:
        st.transitions += 1
    if u1 == u2:
        if st is not None:
            st.evaluations += 1
            st.outcomes['equal-units'] += 1
        out = []
        if s1 != s2:
            # equal units must really be interchangeable
            um1, um2 = w.um[s1], w.um[s2]
            same = um1.tname == um2.tname and (
                (um1.scale is not None and um1.scale == um2.scale)
                or (um1.scale is None and um1.udim == um2.udim
                    and um1.ufac == um2.ufac))
            if not same:
                out.append(('C19:unit-eq:not-same-scale',
                            f"Unit({s1}) == Unit({s2}) although they do not "
                            "denote the same scale"))
        return out + coherent(u1, u2, f"Unit({s1}) == Unit({s2})",
                              'C19:unit-hash')
    return []


@guarded('C19')
def run_converted_eq(w, kind):
    """quantities that are equal only through a registered converter"""
    out = []
    if kind == 'temperature':
        T = w.types['Temperature']
        pairs = [(T(0, w.units['°C']), T(32, w.units['°F'])),
                 (T(O.dec('D:273.15'), w.units['K']), T(0, w.units['°C'])),
                 (T(-40, w.units['°C']), T(-40, w.units['°F']))]
        for a, b in pairs:
            if a == b:
                out += coherent(a, b, f"{a!r} == {b!r}",
                                'C19:qty-hash:converter')
        # a converted quantity (its source was hashed before) and a freshly
        # built one with the same amount and unit
        for src, dst in (('°C', 'K'), ('K', '°F'), ('°F', '°C')):
            for x in (20, O.dec('D:-40'), F(1, 3)):
                a = T(x, w.units[src])
                hash(a)
                b = a.convert(w.units[dst])
                c = T(b.amount, w.units[dst])
                if b == c:
                    out += coherent(b, c, f"({a!r}).convert({dst}) == {c!r}",
                                    'C19:qty-hash:same-unit:converted')
    else:
        from datetime import date
        from quantity.money import Money, MoneyConverter
        conv = MoneyConverter(w.units['EUR'], lambda: date(2020, 1, 1))
        conv.update(None, [(w.units['USD'], O.dec('D:1.25'), 1)])
        with conv:
            a, b = Money(4, w.units['EUR']), Money(5, w.units['USD'])
            if a == b:
                out += coherent(a, b, f"{a!r} == {b!r} (converter active)",
                                'C19:qty-hash:converter')
            for x in (4, O.dec('D:2.20'), F(1, 3)):
                a = Money(x, w.units['EUR'])
                hash(a)
                b = a.convert(w.units['USD'])
                c = Money(b.amount, w.units['USD'])
                if b == c:
                    out += coherent(b, c, f"({a!r}).convert(USD) == {c!r}",
                                    'C19:qty-hash:same-unit:converted')
    return out


@guarded('C19')
def run_rates(w):
    from quantity.money import ExchangeRate
    out = []
    e, u = w.units['EUR'], w.units['USD']
    groups = [
        [ExchangeRate(e, 1, u, O.dec('D:1.1')),
         ExchangeRate(e, 10, u, 11), ExchangeRate(e, 100, u, F(110)),
         ExchangeRate('EUR', '1', 'USD', '1.1'),
         ExchangeRate(e, 1, u, 1.1)],
        [ExchangeRate(e, 100, u, O.dec('D:0.164146')),
         ExchangeRate(e, 1, u, O.dec('D:0.00164146')),
         ExchangeRate(e, 1000, u, F(164146, 100000))],
    ]
    for g in groups:
        for a in g:
            for b in g:
                if a == b:
                    out += coherent(a, b, f"{a!r} == {b!r}", 'C19:rate-hash')
                else:
                    out.append(('C19:rate-eq', f"{a!r} != {b!r} although "
                                "they quote the same rate"))
    # a pool with rates in both directions, exact reciprocals among them:
    # whatever pairs the implementation calls equal must hash equal
    j = w.units['JPY']
    pool = []
    for v in ('i:2', 'D:0.5', 'D:1.25', 'D:0.8', 'i:1', 'i:160',
              'D:0.00625', 'D:0.9683'):
        pool += [ExchangeRate(e, 1, u, O.dec(v)),
                 ExchangeRate(u, 1, e, O.dec(v))]
    pool += [r.inverted() for r in pool[:8]]
    pool += [ExchangeRate(e, 1, j, 2), ExchangeRate(j, 1, e, O.dec('D:0.5'))]
    # tiny rates (held with more than six fractional digits) that agree in
    # their first six decimals
    for v in ('D:0.006126', 'D:0.00612557', 'D:0.0061255', 'D:0.00612549',
              'D:0.006125'):
        pool.append(ExchangeRate(j, 1, e, O.dec(v)))
    pool.append(ExchangeRate(e, 1, j, O.dec('D:163.25')).inverted())
    pool.append(ExchangeRate(j, 100, e, O.dec('D:0.612557')))
    for a in pool:
        for b in pool:
            if a == b:
                out += coherent(a, b, f"{a!r} == {b!r}", 'C19:rate-hash')
    return out


@guarded('C19')
def run_terms(w):
    from quantity.term import Term
    out = []
    km, m, h, s = (w.units[x] for x in ('km', 'm', 'h', 's'))
    groups = [
        [Term([(km, 1), (h, -1)]), Term([(F(5, 18), 1), (m, 1), (s, -1)]),
         Term([(h, -1), (km, 1)]), Term([(1000, 1), (m, 1), (3600, -1),
                                         (s, -1)])],
        [Term([(2, 2)]), Term([(4, 1)]), Term([(O.dec('D:0.25'), -1)])],
        [Term([(km, 2), (m, -1)]), Term([(10 ** 6, 1), (m, 1)])],
        # units of one type without reference unit, given in both orders
        [Term([(w.units['K'], 1), (w.units['°C'], 1)]),
         Term([(w.units['°C'], 1), (w.units['K'], 1)])],
        [Term([(w.units['EUR'], 1), (w.units['USD'], -1)]),
         Term([(w.units['USD'], -1), (w.units['EUR'], 1)]),
         Term([(w.units['USD'], 1)]).reciprocal() * Term([(w.units['EUR'],
                                                           1)])],
        [Term([(w.units['n2'], 2), (w.units['n1'], 1), (m, 1)]),
         Term([(m, 1), (w.units['n1'], 1), (w.units['n2'], 2)]),
         Term([(w.units['n1'], 1), (m, 1), (w.units['n2'], 1),
               (w.units['n2'], 1)])],
    ]
    for g in groups:
        for a in g:
            for b in g:
                if a == b:
                    out += coherent(a, b, f"{a!r} == {b!r}", 'C19:term-hash')
                else:
                    out.append(('C19:term-eq', f"{a!r} != {b!r}"))
    # terms taken as given (reduce_items=False) next to their reduced
    # spellings: only pairs the implementation calls equal are judged
    pool = [Term([(10, 2)], reduce_items=False), Term([(100, 1)]),
            Term([(2, -1)], reduce_items=False), Term([(F(1, 2), 1)]),
            Term([(1, 1)], reduce_items=False), Term(),
            Term([(O.dec('D:0.5'), 1)], reduce_items=False),
            Term([(m, 1), (m, 1)], reduce_items=False), Term([(m, 2)]),
            Term([(km, 1), (m, -1)], reduce_items=False), Term([(1000, 1)]),
            Term([(1000, 1), (m, 0)], reduce_items=False)]
    for a in pool:
        for b in pool:
            try:
                eq = a == b
            except Exception:
                continue
            if eq:
                out += coherent(a, b, f"{a!r} == {b!r}", 'C19:term-hash')
    return out


def part(tnames, amts):
    st = Stats()
    w = make_world()
    for tname in tnames:
        tm = w.tm[tname]
        syms = tm.units
        for s1 in syms:
            for s2 in syms:
                st.paths += 1
                for sig, msg in run_unit_pair(w, s1, s2, st):
                    st.violation(sig, msg, {'units': [s1, s2]})
                if tm.quantum is not None:
                    continue
                if w.um[s1].scale is None or w.um[s2].scale is None:
                    for code in list(amts[:4]) + ['i:0', 'D:0.00']:
                        st.paths += 1
                        st.state((tname, s1, s2, code, 'noscale'),
                                 nontrivial=s1 != s2)
                        for sig, msg in run_noscale_pair(w, tname, s1, s2,
                                                         code, st):
                            st.violation(sig, msg, {'noscale': [tname, s1, s2,
                                                                code]})
                    continue
                for code in amts:
                    st.paths += 1
                    st.state((tname, s1, s2, code), nontrivial=s1 != s2)
                    for sig, msg in run_qty_pair(w, tname, s1, s2, code, st):
                        st.violation(sig, msg, {'qty': [tname, s1, s2,
                                                        code]})
    return st


def part_misc(_):
    st = Stats()
    w = make_world()
    for name, f in (('rates', run_rates), ('terms', run_terms)):
        st.paths += 1
        st.transitions += 20
        st.evaluations += 20
        st.state((name,), nontrivial=True)
        for sig, msg in f(w):
            st.violation(sig, msg, {name: True})
    for kind in ('temperature', 'money'):
        st.paths += 1
        st.transitions += 3
        st.evaluations += 3
        st.state(('converted', kind), nontrivial=True)
        for sig, msg in run_converted_eq(w, kind):
            st.violation(sig, msg, {'converted': kind})
    return st


def replay(case):
    w = make_world()
    if 'units' in case:
        return run_unit_pair(w, *case['units'])
    if 'qty' in case:
        return run_qty_pair(w, *case['qty'])
    if 'noscale' in case:
        return run_noscale_pair(w, *case['noscale'])
    if 'converted' in case:
        return run_converted_eq(w, case['converted'])
    if 'rates' in case:
        return run_rates(w)
    return run_terms(w)


def run(tier, seed):
    total = Stats()
    amts = [a for a in A.pick(tier, seed) if a != 'F:1/2']
    if tier == 'quick':
        amts = amts[:8] + amts[-3:]
    tnames = list(O.CATALOGUE) + ['B1', 'V', 'N', 'NB', 'Money', 'PPM']
    total.merge(pmap(part, [[t] for t in tnames], (amts,), fresh=True))
    total.merge(pmap(part_misc, [0], fresh=True))
    total.sample({'qty': ['Length', 'km', 'm', 'i:1'],
                  'meaning': '1 km vs 1000 m in Decimal and Fraction'})
    total.sample({'units': ['J', 'Nm']})
    total.sample({'units': ['EUR/kg', 'USD/kg']})
    total.extra['amount_alphabet'] = amts
    return total, dict(
        rule="for every type (14 predefined, 6 user incl. types without "
             "reference unit and price units of different currencies): all "
             "ordered unit pairs (unit equality) and, for linear types, all "
             "ordered unit pairs x amount alphabet x {Decimal, Fraction}^2 "
             "with the partner amount chosen so that the quantities are "
             "equal; for units without a common scale the same amount (zero "
             "included) in both units; groups of equal terms and exchange rates; quantities "
             "equal through converters. Only pairs the implementation "
             "reports equal are judged. non-trivial = different units",
        level_text="bounded exhaustive enumeration of equal pairs",
        assumptions=["equality through a registered converter cannot be "
                     "hashed coherently (known finding)"])
