"""C20 Predefined catalogue matches SI / international definitions and docs.

Exhaustive finite check: every predefined unit, every ordered pair of units
per type, every SI prefix, every row of every documentation table.
"""
import re
from fractions import Fraction as F

from .. import oracle as O
from ..core import Stats
from ..world import World

AMOUNTS = ['i:1', 'D:2.5', 'F:-2/7', 'i:1000000000000', 'D:0.000001', 'i:0']

SI = {  # hand-entered from the SI brochure (9th ed.), table 7
    'Yocto': ('y', -24), 'Zepto': ('z', -21), 'Atto': ('a', -18),
    'Femto': ('f', -15), 'Pico': ('p', -12), 'Nano': ('n', -9),
    'Micro': ('µ', -6), 'Milli': ('m', -3), 'Centi': ('c', -2),
    'Deci': ('d', -1), 'Deca': ('da', 1), 'Hecto': ('h', 2),
    'Kilo': ('k', 3), 'Mega': ('M', 6), 'Giga': ('G', 9), 'Tera': ('T', 12),
    'Peta': ('P', 15), 'Exa': ('E', 18), 'Zetta': ('Z', 21),
    'Yotta': ('Y', 24)}


def lib_types():
    import quantity
    import quantity.predefined as P
    out = {}
    for name in dir(P):
        obj = getattr(P, name)
        if isinstance(obj, quantity.QuantityMeta) and obj is not \
                quantity.Quantity:
            out[name] = obj
    return out


def check_unit(st, w, tname, sym):
    """case ['unit', type, symbol]"""
    out = []
    tm = w.tm[tname]
    cls = w.types[tname]
    try:
        u = w.q.Unit(sym)
    except ValueError:
        return [(f'C20:unit-missing:{sym}', f"predefined unit {sym!r} of "
                 f"{tname} is not registered")]
    if u.qty_cls is not cls:
        out.append((f'C20:unit-type:{sym}',
                    f"{sym} belongs to {u.qty_cls.__name__}, not {tname}"))
        return out
    if tm.ref is None:
        return out
    ref = cls.ref_unit
    if ref is None or ref.symbol != tm.ref:
        out.append((f'C20:ref-unit:{tname}', f"reference unit of {tname} is "
                    f"{ref!r}, expected {tm.ref!r}"))
        return out
    want = O.UNIT_REF[sym][1]
    if tm.quantum is None:
        got = O.fr(cls(1, u).convert(ref).amount)
    else:
        # a quantized type rounds 1*unit; use a multiple that is exact
        q = cls(8, u)
        got = O.fr(q.equiv_amount(ref)) / 8
    if got != want:
        out.append((f'C20:scale:{sym}', f"1 {sym} = {got} {tm.ref}, "
                    f"reference table says {want}"))
    return out


def check_pair(st, w, tname, s1, s2, amounts=AMOUNTS):
    out = []
    tm = w.tm[tname]
    cls = w.types[tname]
    u1, u2 = w.units[s1], w.units[s2]
    for a in amounts:
        x = O.val(a)
        want = x * O.UNIT_REF[s1][1] / O.UNIT_REF[s2][1]
        q = cls(O.dec(a), u1)
        if O.fr(q.amount) != x:
            continue            # quantized on construction (DataVolume)
        got = q.equiv_amount(u2)
        st.transitions += 1
        st.evaluations += 1
        if got is None or not O.is_exact(got) or O.fr(got) != want:
            out.append((f'C20:pair:{tname}',
                        f"{a} {s1} -> {s2}: got {got!r}, reference {want}"))
            break
        if tm.quantum is None:
            try:
                r = q.convert(u2)
                ok = r.unit is u2 and O.fr(r.amount) == want
            except Exception as exc:
                r, ok = type(exc).__name__, False
            st.transitions += 1
            if not ok:
                out.append((f'C20:pair-convert:{tname}',
                            f"({a} {s1}).convert({s2}) = {r!r}, reference "
                            f"{want} {s2}"))
                break
    return out


def parse_doc_tables(doc):
    """-> list of (type name, symbol, equivalent text, ref symbol), plus the
    temperature rows."""
    rows, temp_rows = [], []
    cur_type, ref_sym, in_table, header = None, None, 0, None
    lines = doc.splitlines()
    for i, line in enumerate(lines):
        if i + 1 < len(lines) and re.fullmatch(r'\^+', lines[i + 1].strip()) \
                and line.strip():
            cur_type, ref_sym, in_table, header = line.strip(), None, 0, None
            continue
        m = re.match(r"Reference unit: .*\('([^']+)'", line)
        if m:
            ref_sym = m.group(1)
        if re.fullmatch(r'[= ]+', line.strip() or 'x') and '=' in line:
            in_table += 1
            if in_table == 3:
                in_table, header = 0, None
            continue
        if in_table == 1:
            header = line
            continue
        if in_table == 2 and header is not None and line.strip():
            if header.startswith('Symbol'):
                if 'Equivalents' in header:
                    temp_rows.append(line)
                else:
                    c3 = header.index('Definition')
                    c4 = header.index('Equivalent')
                    sym = line.split()[0]
                    rows.append((cur_type, sym, line[c4:].strip(),
                                 ref_sym, line[c3:c4].strip()))
    return rows, temp_rows


def num(txt):
    txt = txt.replace(',', '.')
    if '/' in txt:
        n, d = txt.split('/')
        return F(int(n), int(d))
    return F(txt)


def check_doc(st, w):
    import quantity.predefined as P
    out = []
    rows, temp_rows = parse_doc_tables(P.__doc__)
    seen = set()
    for tname, sym, equiv, ref_sym, definition in rows:
        st.evaluations += 1
        seen.add(sym)
        if sym not in O.UNIT_REF:
            out.append((f'C20:doc-unknown:{sym}',
                        f"documented unit {sym} not in reference table"))
            continue
        try:
            u = w.q.Unit(sym)
        except ValueError:
            out.append((f'C20:doc-unregistered:{sym}',
                        f"documented unit {sym} is not registered"))
            continue
        cls = u.qty_cls
        if cls.__name__ != tname:
            out.append((f'C20:doc-type:{sym}', f"{sym} documented under "
                        f"{tname} but is a {cls.__name__} unit"))
            continue
        if cls.ref_unit is None or cls.ref_unit.symbol != ref_sym:
            out.append((f'C20:doc-ref:{tname}', f"documented reference unit "
                        f"{ref_sym!r} != {cls.ref_unit!r}"))
            continue
        computed = O.fr(cls(8, u).equiv_amount(cls.ref_unit)) / 8
        try:
            documented = num(equiv)
        except (ValueError, ZeroDivisionError):
            out.append((f'C20:doc-parse:{sym}', f"cannot read {equiv!r}"))
            continue
        if documented != computed:
            out.append((f'C20:doc-equiv:{sym}', f"documentation says 1 {sym} "
                        f"= {equiv} {ref_sym}, computed {computed}"))
        st.state(('doc', sym), nontrivial=True)
    # every non-reference predefined unit of a linear type is documented
    for sym, (tname, sc) in O.UNIT_REF.items():
        if O.CATALOGUE[tname][1] not in (None, sym) and sym not in seen:
            out.append((f'C20:doc-missing:{sym}',
                        f"predefined unit {sym} has no documentation row"))
    # temperature rows: "0 °C = 32 °F = 273,15 K", "≅" to printed digits
    n_temp = 0
    for line in temp_rows:
        m = re.match(r'(\S+)\s+.*?\s{2,}(.*)$', line)
        if not m:
            continue
        parts = re.split(r'\s*(=|≅)\s*', m.group(2).strip())
        first = parts[0].split()
        base_k = O.temp_to_kelvin(first[1], num(first[0]))
        for rel, item in zip(parts[1::2], parts[2::2]):
            v, s = item.split()
            n_temp += 1
            st.evaluations += 1
            st.state(('doc-temp', line.split()[0], s), nontrivial=True)
            exact = O.temp_from_kelvin(s, base_k)
            # the library's own answer
            T = w.types['Temperature']
            lib = T(O.dec('D:' + first[0].replace(',', '.')),
                    w.units[first[1]]).convert(w.units[s]).amount
            if O.fr(lib) != exact:
                out.append((f'C20:temp-conv:{first[1]}->{s}',
                            f"library converts {first[0]} {first[1]} to "
                            f"{lib} {s}, physics says {exact}"))
            val = num(v)
            if rel == '=':
                ok = val == exact
            else:
                digits = len(v.replace(',', '.').partition('.')[2])
                ok = abs(val - exact) <= F(1, 2 * 10 ** digits)
            if not ok:
                out.append((f'C20:doc-temp:{first[1]}->{s}',
                            f"documentation row {m.group(2).strip()!r}: "
                            f"{v} {s} but exact value is {exact} "
                            f"(~{float(exact):.5f})"))
    if n_temp < 6:
        out.append(('C20:doc-temp-rows', f"only {n_temp} temperature "
                    "equivalents found in the documentation"))
    return out


def check_prefixes(st):
    from quantity import si_prefixes as S
    out = []
    names = {p.name: p for p in S.SI_PREFIXES}
    for name, (abbr, exp) in SI.items():
        st.evaluations += 1
        st.state(('prefix', name), nontrivial=True)
        p = names.get(name)
        if p is None:
            out.append((f'C20:prefix-missing:{name}', f"no prefix {name}"))
            continue
        if not O.is_exact(p.factor) or O.fr(p.factor) != F(10) ** exp:
            out.append((f'C20:prefix:{name}', f"{name} factor {p.factor!r} "
                        f"!= 10**{exp}"))
        if p.abbr != abbr:
            out.append((f'C20:prefix-abbr:{name}', f"{name} abbreviation "
                        f"{p.abbr!r} != {abbr!r}"))
        const = getattr(S, name.upper(), None)
        if const is not p:
            out.append((f'C20:prefix-const:{name}',
                        f"{name.upper()} is not the {name} prefix"))
        if S.SI_PREFIX_MAP.get(p.factor) is not p:
            out.append((f'C20:prefix-map:{name}', "SI_PREFIX_MAP incoherent"))
    if len(S.SI_PREFIXES) != len(SI):
        out.append(('C20:prefix-count', f"{len(S.SI_PREFIXES)} prefixes"))
    return out


def run_case(case, st=None, w=None):
    st = st or Stats()
    w = w or World(catalogue=True)
    kind = case[0]
    if kind == 'unit':
        return check_unit(st, w, case[1], case[2])
    if kind == 'pair':
        return check_pair(st, w, case[1], case[2], case[3])
    if kind == 'pair-after-stir':
        for f in (lambda a, b: a / b, lambda a, b: a * b):
            for x, y in ((case[2], case[3]), (case[3], case[2])):
                try:
                    f(w.units[x], w.units[y])
                except Exception:
                    pass
        return check_pair(st, w, case[1], case[2], case[3])
    if kind == 'doc':
        return check_doc(st, w)
    if kind == 'prefixes':
        return check_prefixes(st)
    if kind == 'types':
        return check_types(st, w)
    raise ValueError(case)


def check_types(st, w):
    out = []
    lt = lib_types()
    for tname in O.CATALOGUE:
        if tname not in lt:
            out.append((f'C20:type-missing:{tname}', f"no type {tname}"))
    for tname, cls in lt.items():
        st.evaluations += 1
        if tname not in O.CATALOGUE:
            out.append((f'C20:type-extra:{tname}',
                        f"type {tname} not in reference table"))
            continue
        want = set(O.CATALOGUE[tname][3])
        got = {u.symbol for u in cls.units()}
        for s in sorted(want - got):
            out.append((f'C20:unit-missing:{s}',
                        f"{tname}.units() lacks {s}"))
        for s in sorted(got - want):
            out.append((f'C20:unit-extra:{s}', f"{tname} has unit {s} which "
                        "is not in the reference table"))
        q = O.CATALOGUE[tname][2]
        lq = cls.quantum
        if (q is None) != (lq is None) or (q is not None
                                           and O.fr(lq) != q):
            out.append((f'C20:quantum:{tname}', f"quantum {lq!r} != {q}"))
    return out


def after_rejected_redeclarations(_=None):
    """(fork) Try to re-declare every predefined symbol in its own type with
    another scale -- each attempt must be rejected -- then the catalogue as
    published by the types must still be the reference catalogue."""
    from decimalfp import Decimal
    st = Stats()
    w = World(catalogue=True)
    out = []
    for tname, (dim, ref, quantum, units) in O.CATALOGUE.items():
        cls = w.types[tname]
        for sym in units:
            try:
                if ref is None:
                    cls.new_unit(sym)
                else:
                    cls.new_unit(sym, 'again', Decimal('0.9') * cls.ref_unit)
                out.append((f'C20:redeclaration-accepted:{sym}',
                            f"{tname}.new_unit({sym!r}) was accepted"))
            except ValueError:
                pass
    for tname, (dim, ref, quantum, units) in O.CATALOGUE.items():
        cls = w.types[tname]
        out += [(sg + ':after-rejected-redeclaration', m)
                for sg, m in check_types(st, w)] if tname == 'Mass' else []
        for sym in units:
            u = w.q.Unit(sym)
            try:
                same = cls.get_unit_by_symbol(sym) is u and \
                    [x for x in cls.units() if x.symbol == sym][0] is u
            except Exception:
                same = False
            if not same:
                out.append(('C20:catalogue-changed-by-rejected-declaration',
                            f"{tname} no longer publishes the predefined "
                            f"unit {sym}"))
            out += [(sg + ':after-rejected-redeclaration', m)
                    for sg, m in check_unit(st, w, tname, sym)]
    return out


def replay(case):
    if case == ['after-rejected-redeclarations']:
        from ..hist import fork_call
        return fork_call(after_rejected_redeclarations)
    return run_case(case)


def run(tier, seed):
    st = Stats()
    w = World(catalogue=True)

    def do(case):
        for sig, msg in run_case(case, st, w):
            st.violation(sig, msg, case)
        st.paths += 1

    do(['types'])
    do(['prefixes'])
    do(['doc'])
    n_pairs = 0
    for tname, (dim, ref, quantum, units) in O.CATALOGUE.items():
        for s in units:
            st.evaluations += 1
            st.state(('unit', s), nontrivial=(s != ref))
            do(['unit', tname, s])
        if ref is None:
            continue
        syms = [s for s in units if s in w.units]
        for s1 in syms:
            for s2 in syms:
                n_pairs += 1
                st.state(('pair', s1, s2), nontrivial=(s1 != s2))
                do(['pair', tname, s1, s2])
    # second pass from a non-initial evaluation history: every same-type
    # unit quotient / product and every comparison has been evaluated once
    # (memoised state, if any, is now populated), then all pairs again
    n_stir = 0
    for tname, (dim, ref, quantum, units) in O.CATALOGUE.items():
        syms = [s for s in units if s in w.units]
        for s1 in syms:
            for s2 in syms:
                for f in (lambda a, b: a / b, lambda a, b: a * b,
                          lambda a, b: a < b, lambda a, b: a == b):
                    try:
                        f(w.units[s1], w.units[s2])
                    except Exception:
                        pass
                    n_stir += 1
    for tname, (dim, ref, quantum, units) in O.CATALOGUE.items():
        if ref is None:
            continue
        syms = [s for s in units if s in w.units]
        for s1 in syms:
            for s2 in syms:
                st.state(('pair-after-stir', s1, s2), nontrivial=(s1 != s2))
                for sig, msg in run_case(['pair', tname, s1, s2], st, w):
                    st.violation(sig + ':after-unit-ops', msg,
                                 ['pair-after-stir', tname, s1, s2])
                st.paths += 1
    st.transitions += n_stir
    from ..hist import fork_call
    st.paths += 1
    st.transitions += len(O.UNIT_REF)
    st.evaluations += 2 * len(O.UNIT_REF)
    for sig, msg in fork_call(after_rejected_redeclarations):
        st.violation(sig, msg, ['after-rejected-redeclarations'])
    st.sample({'case': ['pair', 'Length', 'mi', 'in'],
               'meaning': '5 amounts converted mi->in vs 1609.344/0.0254'})
    st.sample({'case': ['unit', 'Mass', 'oz'], 'reference': '0.028349523125'})
    st.extra['ordered_pairs'] = n_pairs
    st.extra['units'] = len(O.UNIT_REF)
    return st, dict(
        rule="every predefined unit / ordered unit pair per type / SI prefix "
             "/ documentation row is one case; non-trivial = not the "
             "reference unit resp. not the identity pair",
        level_text="complete enumeration of the finite catalogue against a "
                   "hand-entered SI / yard-pound / IEC reference table",
        assumptions=["reference table vq/oracle.py:CATALOGUE entered by hand "
                     "from the SI brochure and the 1959 agreement"],
        exhaustive=True)
