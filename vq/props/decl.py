"""Shared machinery of the declaration-history checks C15, C16 (and C17):
event alphabet, enabledness from the harness's directory model, directory
invariant and observable fingerprint (both computed in a throw-away fork so
that queries never become part of the explored history)."""
import operator
from fractions import Fraction as F

from .. import oracle as O
from ..core import h64
from ..hist import fork_call
from ..world import World

# name -> (event, required symbols/types, kind)
#   kind: 'valid' (must be accepted when enabled), 'invalid:<reason>'
EVENTS = {
    'B1': (['type', 'B1', 'x0', None], [], 'valid'),
    'B2': (['type', 'B2', 'y0', None], [], 'valid'),
    'N1': (['type', 'N1', None, None], [], 'valid'),
    # a Python subclass of a concrete quantity type: a base type of its own
    'B1c': (['type', 'B1c', 'xc0', None, 'B1'], ['B1'], 'valid'),
    'xc1': (['unit', 'B1c', 'xc1', ['scaled', 'i:1000', 'xc0']], ['B1c'],
            'valid'),
    '!subdef': (['unit', 'B1', 'xsub', ['scaled', 'i:3', 'xc0']], ['B1c'],
                'invalid:definition of another type'),
    'S': (['dtype', 'S', [['B1', 2]], None, None], ['B1'], 'valid'),
    'V': (['dtype', 'V', [['B1', 1], ['B2', -1]], None, None],
          ['B1', 'B2'], 'valid'),
    'P': (['dtype', 'P', [['B1', 1], ['B2', 1]], 'p0', None],
          ['B1', 'B2'], 'valid'),
    'NB': (['dtype', 'NB', [['N1', 1], ['B1', -1]], None, None],
           ['N1', 'B1'], 'valid'),
    'F': (['dtype', 'F', [['B2', -1]], 'f0', None], ['B2'], 'valid'),
    'vdup': (['unit', 'V', 'vdup', ['scaled', 'F:50/3', 'x0/y0']], ['V'],
             'valid'),
    'n1/x1': (['unit', 'NB', 'n1/x1', ['derive', ['n1', 'x1']]],
              ['NB', 'n1', 'x1'], 'valid'),
    'x1': (['unit', 'B1', 'x1', ['scaled', 'i:1000', 'x0']], ['B1'], 'valid'),
    'x2': (['unit', 'B1', 'x2', ['scaled', 'D:0.0254', 'x1']], ['x1'],
           'valid'),
    'x3': (['unit', 'B1', 'x3', ['term', [['i:12', 1], ['x0', 1]]]], ['B1'],
           'valid'),
    'y1': (['unit', 'B2', 'y1', ['scaled', 'i:60', 'y0']], ['B2'], 'valid'),
    'x1/y1': (['unit', 'V', 'x1/y1', ['derive', ['x1', 'y1']]],
              ['V', 'x1', 'y1'], 'valid'),
    'x1/y0': (['unit', 'V', None, ['derive', ['x1', 'y0']]], ['V', 'x1'],
              'valid'),
    'x1²': (['unit', 'S', 'x1²', ['derive', ['x1']]], ['S', 'x1'], 'valid'),
    # a symbol that differs from 'x1' only by a blank at its end: text is
    # resolved by the symbol as written first, whatever was parsed before
    'x1pad': (['unit', 'B1', 'x1 ', ['scaled', 'i:7', 'x0']], ['B1'],
              'valid'),
    # a unit that owns the symbol which derive_unit_from(x1, y0) generates,
    # with another meaning: whichever of the two comes second is a duplicate
    'vusurp': (['unit', 'V', 'x1/y0', ['scaled', 'i:2', 'x0/y0']], ['V'],
               'valid'),
    'vt': (['unit', 'V', 'vt', ['term', [['F:1/3', 1], ['x1', 1],
                                         ['y0', -1]]]], ['V', 'x1'], 'valid'),
    # a term that is exactly the definition of 'x1/y1' (an alias when that
    # unit exists already, the first unit of this definition otherwise)
    'vt2': (['unit', 'V', 'vt2', ['term', [['x1', 1], ['y1', -1]]]],
            ['V', 'x1', 'y1'], 'valid'),
    'st': (['unit', 'S', 'st', ['term', [['x1', 1], ['x0', 1]]]],
           ['S', 'x1'], 'valid'),
    'n1': (['unit', 'N1', 'n1', ['none']], ['N1'], 'valid'),
    'n1/x0': (['unit', 'NB', 'n1/x0', ['derive', ['n1', 'x0']]],
              ['NB', 'n1'], 'valid'),
    'x1dup': (['unit', 'B1', 'x1dup', ['scaled', 'i:1000', 'x0']], ['B1'],
              'valid'),
    # two independent definition-less units of a type without reference
    # unit, a scaled unit of each, and term units mixing the two families
    'n2': (['unit', 'N1', 'n2', ['none']], ['N1'], 'valid'),
    'n1k': (['unit', 'N1', 'n1k', ['scaled', 'i:1000', 'n1']], ['n1'],
            'valid'),
    'n2k': (['unit', 'N1', 'n2k', ['scaled', 'i:1000', 'n2']], ['n2'],
            'valid'),
    'nmix': (['unit', 'N1', 'nmix', ['term', [['i:3', 1], ['n1k', 1],
                                             ['n2k', 1], ['n2k', -1]]]],
             ['n1k', 'n2k'], 'valid'),
    # symbols Unicode normalisation would change (OHM SIGN, ANGSTROM SIGN)
    'B\u2126': (['type', 'B4', '\u2126', None], [], 'valid'),
    'k\u2126': (['unit', 'B4', 'k\u2126', ['scaled', 'i:1000', '\u2126']],
                ['B4'], 'valid'),
    'S\u2126': (['dtype', 'S4', [['B4', 2]], None, None], ['B4'], 'valid'),
    'k\u2126\u00b2': (['unit', 'S4', '\u212b', ['derive', ['k\u2126']]],
                      ['S4', 'k\u2126'], 'valid'),
    '!dup\u2126': (['unit', 'B4', '\u2126', ['scaled', 'i:5', '\u2126']],
                   ['B4'], 'invalid:duplicate symbol'),
    # two base types whose classes have the same __name__ (declared in two
    # scopes), and derived types listing them in opposite orders
    'L1': (['type', 'Level#1', 'l1', None], [], 'valid'),
    'L2': (['type', 'Level#2', 'l2', None], [], 'valid'),
    'LL': (['dtype', 'LL', [['Level#1', 1], ['Level#2', 1]], 'll0', None],
           ['Level#1', 'Level#2'], 'valid'),
    '!LL2': (['dtype', 'LL2', [['Level#2', 1], ['Level#1', 1]], 'll2', None],
             ['LL'], 'invalid:dimension taken'),
    # type definitions that are not terms of quantity types
    '!Pnum': (['dtype', 'Pn', [['B1', 1], ['B2', 1], ['i:7', 1]], None,
               None], ['B1', 'B2'], 'invalid:invalid definition'),
    '!Punits': (['dtype', 'Pu', [['u:x0', 1], ['u:y0', 1]], 'pu0', None],
                ['B1', 'B2'], 'invalid:invalid definition'),
    # a unit without definition in a type with reference unit (no scale)
    'xnone': (['unit', 'B1', 'xnone', ['none']], ['B1'], 'valid'),
    # an exponent of two digits (default reference symbol 'x0¹²')
    'S12': (['dtype', 'S12', [['B1', 12]], None, None], ['B1'], 'valid'),
    'x1^12': (['unit', 'S12', None, ['derive', ['x1']]], ['S12', 'x1'],
              'valid'),
    # a unit derived from a scale-less unit of a base type with reference
    # unit: it is no multiple of the derived type's reference unit
    'xnone/y0': (['unit', 'V', 'xnone/y0', ['derive', ['xnone', 'y0']]],
                 ['V', 'xnone'], 'valid'),
    # a second unit with the definition of 'n1/x0' (type without reference
    # unit: the two are different units)
    'n1/x0b': (['unit', 'NB', 'n1px0', ['derive', ['n1', 'x0']]],
               ['NB', 'n1'], 'valid'),
    # a subclass of Money (a quantity type of its own) and a currency in it
    'Tok': (['type', 'Tok', None, None, 'Money'], ['Money'], 'valid'),
    'TokCHF': (['curin', 'Tok', 'CHF'], ['Tok'], 'valid'),
    'Tok2': (['type', 'Tok2', None, None, 'Tok'], ['Tok'], 'valid'),
    'Tok2SEK': (['curin', 'Tok2', 'SEK'], ['Tok2'], 'valid'),
    # a subclass of Money with a reference currency
    'TokR': (['type', 'TokR', 'tr0', None, 'Money'], ['Money'], 'valid'),
    'TokRDKK': (['curin', 'TokR', 'DKK'], ['TokR'], 'valid'),
    # an ISO code declared directly, and its registration afterwards
    'JPYhand': (['newcur', 'JPY', 2, None], [], 'valid'),
    '!JPYreg': (['cur', 'JPY'], ['JPY'], 'invalid:duplicate symbol'),
    # the same in a type with a quantum
    'Q1': (['type', 'Q1', 'q0', 'D:0.05'], [], 'valid'),
    'qnone': (['unit', 'Q1', 'qnone', ['none']], ['Q1'], 'valid'),
    # definitions that denote zero
    '!zero': (['unit', 'B1', 'xz', ['scaled', 'i:0', 'x0']], ['B1'],
              'invalid:zero scale'),
    '!zeroterm': (['unit', 'B1', 'xzt', ['term', [['D:0.0', 1], ['x1', 1]]]],
                  ['x1'], 'invalid:zero scale'),
    # a derived type whose first factor has a reference unit and whose
    # second has none (no reference unit can be derived)
    'BN': (['dtype', 'BN', [['B1', 1], ['N1', -1]], None, None],
           ['B1', 'N1'], 'valid'),
    'x1/n1': (['unit', 'BN', 'x1/n1', ['derive', ['x1', 'n1']]],
              ['BN', 'x1', 'n1'], 'valid'),
    # terms that denote a plain number
    '!numterm': (['unit', 'B1', 'xnum', ['term', [['x1', 1], ['x0', -1]]]],
                 ['x1'], 'invalid:definition of another dimension'),
    '!numonly': (['unit', 'B1', 'xnum2', ['term', [['i:7', 1]]]], ['B1'],
                 'invalid:definition of another dimension'),
    # ---- invalid declarations
    '!nmixbad': (['unit', 'N1', 'nmixbad', ['term', [['n1k', 2],
                                                    ['n2k', -1]]]],
                 ['n1k', 'n2k'], 'invalid:definition of another dimension'),
    '!dupsym': (['unit', 'B1', 'x0', ['scaled', 'i:5', 'x0']], ['B1'],
                'invalid:duplicate symbol'),
    '!dupsym2': (['unit', 'B2', 'x1', ['scaled', 'i:5', 'y0']], ['B2', 'x1'],
                 'invalid:duplicate symbol'),
    '!empty': (['unit', 'B1', '', ['scaled', 'i:5', 'x0']], ['B1'],
               'invalid:empty symbol'),
    '!nonstr': (['unit', 'B1', 5, ['scaled', 'i:5', 'x0']], ['B1'],
                'invalid:non-string symbol'),
    '!S2': (['dtype', 'S2', [['B1', 2]], 's2', None], ['S'],
            'invalid:dimension taken'),
    '!V2': (['dtype', 'V2', [['B2', -1], ['B1', 1]], 'v2', None], ['V'],
            'invalid:dimension taken'),
    '!B1again': (['dtype', 'B1b', [['B1', 1]], 'b1b', None], ['B1'],
                 'invalid:dimension taken'),
    '!othertype': (['unit', 'B1', 'xbad', ['scaled', 'i:5', 'y0']],
                   ['B1', 'B2'], 'invalid:definition of another type'),
    '!otherdim': (['unit', 'B1', 'xbad2', ['term', [['x0', 2]]]], ['B1'],
                  'invalid:definition of another dimension'),
    # the same with scaled units and a definition no unit has yet
    '!otherdim2': (['unit', 'B1', 'xbad3', ['term', [['x1', 1], ['y1', -1]]]],
                   ['x1', 'y1'], 'invalid:definition of another dimension'),
    '!wrongbase': (['unit', 'V', 'vbad', ['derive', ['y0', 'x0']]], ['V'],
                   'invalid:wrong base units'),
    '!wrongcount': (['unit', 'V', 'vbad2', ['derive', ['x0']]], ['V'],
                    'invalid:wrong number of base units'),
    '!B3dupref': (['type', 'B3', 'x0', None], ['B1'],
                  'invalid:duplicate symbol'),
    '!derivebase': (['unit', 'B1', 'xd', ['derive', ['x0']]], ['B1'],
                    'invalid:derive on base type'),
    '!dupderive': (['unit', 'V', 'x0/y0', ['derive', ['x1', 'y1']]],
                   ['V', 'x1', 'y1'], 'invalid:duplicate symbol'),
    '!dupterm': (['unit', 'B1', 'x0', ['term', [['i:7', 1], ['x1', 1]]]],
                 ['x1'], 'invalid:duplicate symbol'),
    '!Pdupsym': (['dtype', 'Pbad', [['B1', 1], ['B2', 1]], 'x0', None],
                 ['B1', 'B2'], 'invalid:duplicate symbol'),
    '!Sdupsym': (['dtype', 'Sbad', [['B1', 2]], 'y0', None],
                 ['B1', 'B2'], 'invalid:duplicate symbol'),
    '!NB2': (['dtype', 'NB2', [['B1', -1], ['N1', 1]], 'nb2', None], ['NB'],
             'invalid:dimension taken'),
    '!P2': (['dtype', 'P2', [['B2', 1], ['B1', 1]], None, None], ['P'],
            'invalid:dimension taken'),
    # ---- queries: evaluated in-process, so they are part of the history
    '?query': (['query'], [], 'query'),
    '?query2': (['query'], [], 'query'),
    # ---- currencies
    'EUR': (['cur', 'EUR'], [], 'valid'),
    'XAB': (['newcur', 'XAB', None, 'D:0.05'], [], 'valid'),
    '!XXQ': (['cur', 'XXQ'], [], 'invalid:unknown code'),
    '!XAA': (['newcur', 'XAA', 2, 'D:0.05'], [], 'invalid:fraction/minor'),
    '!XAC': (['newcur', 'XAC', None, 'D:0.3'], [], 'invalid:fraction'),
    '!XAD': (['newcur', 'XAD', -1, None], [], 'invalid:minor'),
    '!EURdup': (['newcur', 'EUR', 2, None], ['EUR'],
                'invalid:duplicate symbol'),
}


def make_state(root=()):
    w = World()
    w.default_ref_symbol = lambda definition: w.default_unit_symbol(
        [[w.tm[tn].ref, e] for tn, e in definition])
    state = {'w': w, 'done': [], 'fp': None, 'rejected': 0, 'acc': []}
    for name in root:           # non-initial root state (all valid events)
        res = w.apply(EVENTS[name][0])
        if res[0] != 'ok':
            from ..world import SetupRejected
            raise SetupRejected(EVENTS[name][0], res)
        state['done'].append(name)
    state['root'] = list(root)
    state['fp'] = fp_hash(observe_in_fork(w)[1])
    return state


def exists(w, name):
    return name in w.tm or name in w.um


def enabled_names(state, names, max_invalid=None):
    w = state['w']
    out = []
    for n in names:
        ev, req, kind = EVENTS[n]
        if n in state['done']:
            continue
        if not all(exists(w, r) for r in req):
            continue
        if kind != 'valid' and max_invalid is not None and \
                state['rejected'] >= max_invalid:
            continue
        out.append(n)
    return out


# ---------------------------------------------------------------------------
# observation (always inside a throw-away fork)

def observe(w, with_ops=True):
    """-> (violations of the directory invariant, fingerprint pieces)"""
    import quantity
    Q = quantity
    viol = []
    fp = {}
    all_types = dict(w.types)
    classes = list(all_types.values()) + [Q.Quantity]
    # every declared unit
    for sym, um in w.um.items():
        u = w.units[sym]
        cls = w.types[um.tname]
        tm = w.tm[um.tname]
        try:
            found = Q.Unit(sym)
        except ValueError:
            found = None
        if found is not u:
            viol.append(('C15:symbol-lookup', f"Unit({sym!r}) is not the "
                         f"declared unit (got {found!r})"))
            continue
        if u.qty_cls is not cls:
            viol.append(('C15:unit-type', f"{sym}.qty_cls is "
                         f"{u.qty_cls.__name__}, declared for {um.tname}"))
        try:
            listed = sym in cls and cls.get_unit_by_symbol(sym) is u and \
                any(x is u for x in cls.units()) and sym in list(iter(cls))
        except Exception:
            listed = False
        if not listed:
            viol.append(('C15:not-listed-by-own-type',
                         f"{sym} is not listed by {um.tname}"))
        for other in classes:
            if other is cls:
                continue
            try:
                there = sym in other or any(x is u for x in other.units())
                if not there:
                    try:
                        other.get_unit_by_symbol(sym)
                        there = True
                    except ValueError:
                        pass
            except Exception:
                there = False
            if there:
                viol.append(('C15:listed-by-other-type',
                             f"{sym} (a {um.tname} unit) is listed by "
                             f"{other.__name__}"))
        for how, f in (('number-unit', lambda: Q.Quantity(1, u)),
                       ('text', lambda: Q.Quantity(f"1 {sym}")),
                       ('own', lambda: cls(1, u)),
                       ('mul', lambda: 1 * u)):
            try:
                q = f()
                if type(q) is not cls or q.unit is not u:
                    viol.append((f'C15:instance-type:{how}',
                                 f"{how} construction with {sym} gives "
                                 f"{type(q).__name__} in {q.unit}"))
            except Exception as exc:
                viol.append((f'C15:instance-type:{how}',
                             f"{how} construction with {sym}: "
                             f"{type(exc).__name__}: {exc}"))
        # constructing through any other type never yields an instance of
        # that other type
        for other in classes:
            if other is cls:
                continue
            # text plus an explicit unit: the type that is called decides
            if other is not Q.Quantity:
                for u2s in tm.units[:2]:
                    try:
                        q = other(f"1 {sym}", w.units[u2s])
                        viol.append(('C15:instance-type:foreign-class:'
                                     'text-and-unit',
                                     f"{other.__name__}('1 {sym}', {u2s}) "
                                     f"gives {q!r}; both units belong to "
                                     f"{um.tname}"))
                        break
                    except Exception:
                        pass
            for f in (lambda: other(1, u), lambda: other(f"1 {sym}")):
                try:
                    q = f()
                except Exception:
                    continue
                if type(q) is cls:
                    continue
                viol.append(('C15:instance-type:foreign-class',
                             f"{other.__name__}(1, {sym}) gives a "
                             f"{type(q).__name__}; the unit belongs to "
                             f"{um.tname}"))
                break
        if um.scale is not None and tm.ref is not None:
            try:
                got = cls(1, u).convert(cls.ref_unit).amount
                if not O.is_exact(got) or O.fr(got) != um.scale:
                    viol.append(('C15:scale', f"1 {sym} = {got} {tm.ref}, "
                                 f"its definition denotes {um.scale}"))
            except Exception as exc:
                viol.append(('C15:scale', f"1 {sym} -> {tm.ref}: "
                             f"{type(exc).__name__}: {exc}"))
    # a unit that is no multiple of its type's reference unit has no scale:
    # it neither converts into that unit nor equals it
    for sym, um in w.um.items():
        tm = w.tm[um.tname]
        if um.scale is None and tm.ref is not None and sym in w.units:
            cls, u = w.types[um.tname], w.units[sym]
            try:
                r = cls(1, u).convert(cls.ref_unit)
                viol.append(('C15:scale:unscaled-unit-converts',
                             f"1 {sym} -> {tm.ref} gives {r!r} although "
                             f"{sym} is no multiple of {tm.ref}"))
            except Q.UnitConversionError:
                pass
            except Exception as exc:
                viol.append(('C15:scale:unscaled-unit-converts',
                             f"1 {sym} -> {tm.ref}: {type(exc).__name__}: "
                             f"{exc}"))
            if u == cls.ref_unit:
                viol.append(('C15:scale:unscaled-unit-converts',
                             f"Unit({sym}) == Unit({tm.ref})"))
    # every declared type
    for tname, tm in w.tm.items():
        cls = w.types[tname]
        want = sorted(tm.units)
        try:
            got = sorted(x.symbol for x in cls.units())
        except Exception:
            got = None
        if got != want or len(cls) != len(want):
            viol.append(('C15:type-units', f"{tname}.units() = {got}, "
                         f"declared {want}"))
        ref = cls.ref_unit
        if (ref is None) != (tm.ref is None) or \
                (ref is not None and ref.symbol != tm.ref):
            viol.append(('C15:ref-unit', f"{tname}.ref_unit = {ref!r}, "
                         f"model {tm.ref!r}"))
        elif ref is not None and tm.definition is not None and \
                all(w.tm[tn].ref is not None for tn, _ in tm.definition):
            # reference unit of a derived type = product of the base
            # types' reference units
            from quantity.term import Term
            t = Term([(w.units[w.tm[tn].ref], e) for tn, e in tm.definition])
            if not (ref.definition == t) or \
                    O.fr(ref._equiv if hasattr(ref, '_equiv') else 1) != 1:
                viol.append(('C15:derived-ref-unit',
                             f"{tname}.ref_unit is defined as "
                             f"{ref.definition!r}, expected {t!r}"))
        fp['T:' + tname] = got
    if 'Money' in w.tm:
        for sym in w.tm['Money'].units:
            c = w.units[sym]
            fp['M:' + sym] = (c.name, str(c.smallest_fraction))
    try:
        fp['T:Quantity'] = sorted(x.symbol for x in Q.Quantity.units())
    except Exception as exc:
        fp['T:Quantity'] = type(exc).__name__
    if fp['T:Quantity']:
        viol.append(('C15:base-class-lists-units', "Quantity.units() = "
                     f"{fp['T:Quantity']}"))
    # every symbol that was ever attempted
    for sym in sorted(set(map(str, w.attempted_symbols))
                      | set(candidate_symbols())):
        if sym in w.um:
            fp['S:' + sym] = w.um[sym].tname
            continue
        try:
            r = Q.Unit(sym)
            fp['S:' + sym] = 'unit of ' + r.qty_cls.__name__
            viol.append(('C16:rejected-symbol-registered',
                         f"Unit({sym!r}) resolves to a "
                         f"{r.qty_cls.__name__} unit although no accepted "
                         "declaration created it"))
        except ValueError:
            fp['S:' + sym] = 'unknown'
        if sym == '':
            continue
        try:
            q = Q.Quantity(f"1 {sym}")
            fp['P:' + sym] = type(q).__name__
            if sym.strip() != sym and sym.strip() in w.um and \
                    q.unit is w.units[sym.strip()]:
                # blanks around a declared symbol: text is resolved by the
                # symbol as written first, by the stripped symbol second
                continue
            viol.append(('C16:rejected-symbol-parses',
                         f"Quantity('1 {sym}') gives a {type(q).__name__}"))
        except Q.QuantityError:
            fp['P:' + sym] = 'QuantityError'
        except Exception as exc:
            fp['P:' + sym] = type(exc).__name__
    # outcome of every unit x unit operation
    if with_ops:
        syms = list(w.um)
        for s1 in syms:
            for s2 in syms:
                for opn, f in (('*', operator.mul), ('/', operator.truediv)):
                    try:
                        a, u = f(w.units[s1], w.units[s2])
                        # value-based: the unit chosen for the result may
                        # legitimately depend on what was declared when the
                        # operation was first evaluated
                        if u is None:
                            r = (str(O.fr(a)), None, None)
                        elif u.symbol in w.um and \
                                w.um[u.symbol].scale is not None:
                            r = (str(O.fr(a) * w.um[u.symbol].scale), 'ref',
                                 u.qty_cls.__name__)
                        else:
                            r = (str(O.fr(a)), u.symbol, u.qty_cls.__name__)
                        rr = (str(O.fr(a)), None if u is None else u.symbol)
                    except Exception as exc:
                        r = rr = type(exc).__name__
                    fp[f'O:{s1}{opn}{s2}'] = r
                    # strict form (amount and unit as returned): only ever
                    # compared between histories with identical accepted
                    # steps and queries
                    fp[f'R:{s1}{opn}{s2}'] = rr
    return viol, fp


def observe_in_fork(w, with_ops=True):
    return fork_call(observe, w, with_ops)


def fp_hash(fp):
    return h64(sorted(((k, v) for k, v in fp.items()
                       if not k.startswith('R:')), key=lambda kv: kv[0]))


def sfp_hash(fp):
    return h64(sorted(fp.items(), key=lambda kv: kv[0]))


def candidate_symbols():
    out = set()
    for ev, req, kind in EVENTS.values():
        if ev[0] in ('type',) and ev[2]:
            out.add(ev[2])
        elif ev[0] == 'dtype' and ev[3]:
            out.add(ev[3])
        elif ev[0] == 'unit' and isinstance(ev[2], str) and ev[2]:
            out.add(ev[2])
        elif ev[0] in ('cur', 'newcur'):
            out.add(ev[1])
        elif ev[0] == 'curin':
            out.add(ev[2])
    return sorted(out | {'x0²', 'x0/y0', 'x1/y0', 'x0·y0', '', '5',
                         '\u2126\u00b2'})


def query(w):
    """Evaluate look-ups, parses and operations in-process (results are
    ignored): they become part of the evaluation history of all
    descendants."""
    import quantity
    Q = quantity
    for sym in candidate_symbols():
        for f in (lambda: Q.Unit(sym), lambda: Q.Quantity(f"1 {sym}"),
                  lambda: Q.Quantity(f"2.5 {sym}", None)):
            try:
                f()
            except Exception:
                pass
    syms = list(w.units)
    for s1 in syms:
        for s2 in syms:
            u1, u2 = w.units[s1], w.units[s2]
            for f in (lambda: u1 * u2, lambda: u1 / u2,
                      lambda: u1.qty_cls(2, u1) * u2.qty_cls(3, u2),
                      lambda: u1.qty_cls(2, u1).convert(u2),
                      lambda: u1 == u2, lambda: hash(u1)):
                try:
                    f()
                except Exception:
                    pass
        for n in (-1, 2):
            try:
                w.units[s1] ** n
            except Exception:
                pass
    for cls in list(w.types.values()) + [Q.Quantity]:
        try:
            cls.units(), len(cls), list(cls)
        except Exception:
            pass


def step(state, hist, name, with_ops=True):
    """One node of the history tree (runs inside the forked child)."""
    w = state['w']
    ev, req, kind = EVENTS[name]
    if kind == 'query':
        query(w)
        state['done'] = state['done'] + [name]
        state['acc'] = state['acc'] + [True]
        v2, fp = observe_in_fork(w, with_ops)
        fph = fp_hash(fp)
        viol = list(v2)
        if state['fp'] is not None and fph != state['fp']:
            viol.append(('C17:query-changed-directory', f"evaluating "
                         f"queries after {hist} changed the observable "
                         "directory"))
        parent_fp, state['fp'] = state['fp'], fph
        return {'h': hist + [name], 'ok': True, 'viol': viol, 'fp': fph,
                'sfp': sfp_hash(fp),
                'strict_hist': [n for n, a in zip(hist + [name],
                                                  state['acc']) if a],
                'parent_fp': parent_fp, 'stop': False, 'query': True,
                'valid_hist': [n for n, a in zip(hist + [name], state['acc'])
                               if a and not n.startswith('?')],
                'fpd': None, 'n_units': len(w.um), 'n_types': len(w.tm)}
    pred = w.predict(ev)
    res = w.apply(ev)
    state['done'] = state['done'] + [name]
    viol = []
    stop = False
    accepted = res[0] == 'ok'
    if kind == 'valid' and pred[0] == 'ok' and not accepted:
        viol.append((f'C15:valid-declaration-rejected:{ev[0]}',
                     f"{ev} after {hist}: {res[1]}: {res[2]}"))
        stop = True
    if kind != 'valid' and accepted:
        viol.append((f'C15:invalid-declaration-accepted:{kind[8:]}',
                     f"{ev} after {hist} was accepted"))
        stop = True
    if kind == 'valid' and pred[0] == 'reject' and accepted:
        viol.append((f'C15:invalid-declaration-accepted:{pred[1]}',
                     f"{ev} after {hist} was accepted"))
        stop = True
    state['acc'] = state['acc'] + [accepted]
    if accepted and ev[0] == 'unit' and ev[2] is None and \
            res[1].symbol != pred[1]:
        viol.append(('C15:default-symbol', f"{ev}: generated symbol "
                     f"{res[1].symbol!r}, expected {pred[1]!r}"))
    if not accepted:
        state['rejected'] += 1
        if res[1] not in ('ValueError', 'TypeError', 'AssertionError'):
            viol.append(('C15:rejection-error-class', f"{ev}: {res[1]}: "
                         f"{res[2]}"))
    v2, fp = observe_in_fork(w, with_ops)
    viol += v2
    fph = fp_hash(fp)
    parent_fp = state['fp']
    state['fp'] = fph
    detail = None
    if not accepted and parent_fp is not None and fph != parent_fp:
        # which observation changed?
        detail = 'changed'
    return {'h': hist + [name], 'ok': accepted, 'viol': viol, 'fp': fph,
            'sfp': sfp_hash(fp),
            'strict_hist': [n for n, a in zip(hist + [name], state['acc'])
                            if a],
            'parent_fp': parent_fp, 'stop': stop,
            'valid_hist': [n for n, a in zip(hist + [name], state['acc'])
                           if a and not n.startswith('?')],
            'fpd': fp if (not accepted and detail) else None,
            'n_units': len(w.um), 'n_types': len(w.tm)}
