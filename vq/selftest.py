"""setup_cmd: self-tests of the trusted base (oracles, shim, import path)."""
import subprocess
import sys

from . import env, oracle as O


def canary():
    """The C accelerator of decimalfp is known to corrupt memory on
    Decimal(9 fractional digits) / integer; report whether it still does.
    Runs in a throw-away subprocess; never a VIOLATION (not repository code).
    """
    code = ("import sys; sys.path.insert(0, %r); "
            "from quantity.predefined import NANOMETRE, METRE; "
            "print((5*NANOMETRE).convert(METRE).amount)" % env.SRC)
    import os
    e = dict(os.environ)
    e.pop('DECIMALFP_FORCE_PYTHON_IMPL', None)
    try:
        r = subprocess.run([sys.executable, '-c', code], env=e, timeout=60,
                           capture_output=True, text=True)
    except subprocess.TimeoutExpired:
        return 'timeout'
    if r.returncode == 0 and r.stdout.strip() in ('0.000000005', '5E-9'):
        return 'ok'
    return f'rc={r.returncode} out={r.stdout.strip()[:40]!r}'


def main():
    env.boot()
    n = O.selftest_rounding()
    print(f"rounding oracle agrees with stdlib decimal on {n} cases")
    functional, other = O.iso_table()
    print(f"ISO 4217: {len(functional)} functional currencies, "
          f"{len(other)} non-functional codes")
    assert len(O.UNIT_REF) == 113, len(O.UNIT_REF)
    c = canary()
    if c != 'ok':
        print(f"ENV-NOTE: decimalfp C accelerator misbehaves on "
              f"(5 nm).convert(m): {c}; checks run on the pure-Python "
              f"implementation")
    print("selftest ok")
    return 0
