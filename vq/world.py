"""Worlds: the predefined catalogue and user-declared directories.

A *world script* is a JSON-able list of declaration events which `World.apply`
executes against the real library while keeping its own directory model
(symbol -> type, scale; type -> dimension) from the events alone -- never from
the library's answers.

Events
------
["type",  name, ref_symbol|None, quantum_code|None]
["dtype", name, [[type_name, exp], ...], ref_symbol|None, quantum_code|None]
["unit",  type_name, symbol, ["scaled", factor_code, parent_symbol]]
["unit",  type_name, symbol, ["term", [[symbol|number_code, exp], ...]]]
["unit",  type_name, symbol, ["derive", [symbol, ...]]]     symbol may be None
["unit",  type_name, symbol, ["none"]]
["cur",   iso_code]                       Money.register_currency
["newcur", symbol, minor_unit|None, smallest_fraction_code|None]
"""
from fractions import Fraction as F

from . import oracle as O

class _Sup(dict):
    """exponent -> superscript spelling (no spelling for 1)"""
    DIGITS = '⁰¹²³⁴⁵⁶⁷⁸⁹'

    def get(self, e, default=''):
        if e < 2:
            return default
        return ''.join(self.DIGITS[int(d)] for d in str(e))


SUP = _Sup()


class SetupRejected(Exception):
    """A declaration that the harness's model says is valid was rejected by
    the library while a world was being set up."""

    def __init__(self, ev, res):
        Exception.__init__(self, f"valid declaration {ev} raised {res[1]}: "
                           f"{res[2] if len(res) > 2 else ''}")
        self.ev, self.res = ev, res


class SetupViolated(Exception):
    """While a world was being set up the library did something the harness
    relies on not to happen (e.g. an undeclared symbol resolved)."""

    def __init__(self, kind, msg):
        Exception.__init__(self, msg)
        self.kind = kind


class TypeM:
    def __init__(self, name, dim, ref, quantum, base):
        self.name, self.dim, self.ref, self.quantum, self.base = \
            name, dim, ref, quantum, base
        self.units = []          # symbols in declaration order
        self.definition = None   # [[type name, exp]] for derived types


class UnitM:
    def __init__(self, sym, tname, scale, udim):
        # scale: Fraction relative to the type's reference unit, or None when
        #        the type has no reference unit
        # udim:  dimension over *unit-level* base symbols, i.e. reference
        #        units of base types and definition-less units, with the
        #        numeric factor relative to those in `ufac`
        self.sym, self.tname, self.scale, self.udim = sym, tname, scale, udim
        self.ufac = F(1)


def is_num_code(x):
    return isinstance(x, str) and len(x) > 1 and x[1] == ':'


class World:
    """Real objects + directory model."""

    def __init__(self, catalogue=False):
        import quantity
        self.q = quantity
        self.types = {}      # name -> real class
        self.units = {}      # symbol -> real unit
        self.tm = {}         # name -> TypeM
        self.um = {}         # symbol -> UnitM
        self.script = []
        self.attempted_symbols = []
        self.attempted_types = []
        if catalogue:
            self.load_catalogue()

    # -- predefined catalogue ------------------------------------------------
    def load_catalogue(self):
        import quantity.predefined as P
        for tname, (dim, ref, quantum, units) in O.CATALOGUE.items():
            cls = getattr(P, tname)
            self.types[tname] = cls
            tm = TypeM(tname, dim, ref, quantum, base=len(dim) == 1
                       and dim[0][1] == 1)
            self.tm[tname] = tm
            for sym, scale in units.items():
                try:
                    u = self.q.Unit(sym)
                except ValueError:
                    continue        # reported by C20
                self.units[sym] = u
                tm.units.append(sym)
                if scale is None:       # temperature scales
                    um = UnitM(sym, tname, None, ((sym, 1),))
                else:
                    base = {'M': 'kg', 'L': 'm', 'T': 's', 'D': 'B'}
                    um = UnitM(sym, tname, scale, tuple(sorted(
                        (base[k], v) for k, v in dim)))
                    um.ufac = scale
                self.um[sym] = um

    # -- helpers -------------------------------------------------------------
    def unit_dims(self, sym):
        """(factor, dim over unit-level base symbols) of a declared unit."""
        um = self.um[sym]
        return um.ufac, um.udim

    def term_denotation(self, items):
        """[[symbol|number_code, exp]] -> (factor, unit-level dim, type dim)"""
        fac = F(1)
        udim = ()
        tdim = ()
        for elem, exp in items:
            if is_num_code(elem):
                fac *= O.val(elem) ** exp
            else:
                um = self.um[elem]
                fac *= um.ufac ** exp
                udim = O.dim_mul(udim, O.dim_pow(um.udim, exp))
                tdim = O.dim_mul(tdim,
                                 O.dim_pow(self.tm[um.tname].dim, exp))
        return fac, udim, tdim

    def real_term(self, items):
        from quantity.term import Term
        return Term([(O.dec(e) if is_num_code(e) else self.units[e], x)
                     for e, x in items])

    # -- model: is the event valid, and what does it create? -----------------
    def predict(self, ev):
        """-> ('ok', payload) or ('reject', reason) or ('unspecified', why).
        Pure function of the model."""
        kind = ev[0]
        if kind == 'type':
            _, name, ref, quantum = ev[:4]
            if ref is not None:
                if not isinstance(ref, str) or ref == '':
                    return 'unspecified', 'empty/non-string ref symbol'
                if ref in self.um:
                    return 'reject', 'duplicate symbol'
            return 'ok', None
        if kind == 'dtype':
            _, name, definition, ref, quantum = ev
            if any(tn not in self.tm for tn, _ in definition):
                # numbers or units in a type definition
                return 'reject', 'invalid definition'
            dim = ()
            for tn, exp in definition:
                dim = O.dim_mul(dim, O.dim_pow(self.tm[tn].dim, exp))
            if not dim:
                return 'unspecified', 'empty definition'
            for t in self.tm.values():
                if t.dim == dim:
                    return 'reject', 'dimension taken'
            all_ref = all(self.tm[tn].ref is not None
                          for tn, _ in definition)
            sym = ref
            if sym is None and all_ref:
                sym = self.default_ref_symbol(definition)
            if sym is not None and sym in self.um:
                return 'reject', 'duplicate symbol'
            return 'ok', None
        if kind == 'unit':
            _, tname, sym, how = ev
            tm = self.tm[tname]
            if not isinstance(sym, str) and not (sym is None
                                                 and how[0] == 'derive'):
                return 'reject', 'non-string symbol'
            if sym == '':
                return 'reject', 'empty symbol'
            if how[0] == 'scaled':
                parent = self.um[how[2]]
                if parent.tname != tname:
                    return 'reject', 'definition of another type'
                if O.val(how[1]) == 0:
                    return 'reject', 'zero scale'
            elif how[0] == 'term':
                fac, udim, tdim = self.term_denotation(how[1])
                if tdim != tm.dim:
                    return 'reject', 'definition of another dimension'
                if fac == 0:
                    return 'reject', 'zero scale'
                if tm.ref is None and tm.base:
                    # without a common scale the units themselves are the
                    # dimensions: the term has to reduce to one of them
                    if len(udim) != 1 or udim[0][1] != 1:
                        return 'reject', 'definition of another dimension'
                elif tm.ref is None:
                    return 'unspecified', 'term unit in type without ref'
            elif how[0] == 'derive':
                if tm.base:
                    return 'reject', 'derive on base type'
                syms = how[1]
                d = tm.definition
                if len(syms) != len(d):
                    return 'reject', 'wrong number of base units'
                for (tn, exp), s in zip(d, syms):
                    if self.um[s].tname != tn:
                        return 'reject', 'wrong base units'
                if sym is None:
                    sym = self.default_unit_symbol(
                        [[s, e] for (tn, e), s in zip(d, syms)])
            elif how[0] == 'none':
                pass    # also in a type with reference unit: a unit without
                #         scale, not convertible into the others
            if sym in self.um:
                return 'reject', 'duplicate symbol'
            return 'ok', sym
        if kind == 'cur':
            functional, other = O.iso_table()
            if ev[1] in getattr(self, 'user_currencies', ()):
                # the symbol belongs to a directly declared currency (the
                # harness declares those without name): not the ISO one
                return 'reject', 'duplicate symbol'
            if ev[1] in functional:
                return 'ok', None
            return 'reject', 'unknown code'
        if kind == 'curin':
            # register an ISO currency in a subclass of Money
            functional, other = O.iso_table()
            if ev[2] in self.um:
                return 'reject', 'duplicate symbol'
            return ('ok', None) if ev[2] in functional else \
                ('reject', 'unknown code')
        if kind == 'newcur':
            return 'unspecified', 'checked in C08/C16 directly'
        raise ValueError(ev)

    @staticmethod
    def default_ref_symbol(definition):
        raise NotImplementedError   # set by caller worlds that need it

    def default_unit_symbol(self, items):
        # only used for collision prediction; the harness always passes
        # explicit symbols except where the default is the point of the test
        pos = [f"{s}{SUP.get(e, '')}" for s, e in items if e > 0]
        neg = [f"{s}{SUP.get(-e, '')}" for s, e in items if e < 0]
        return ('·'.join(pos) or '1') + ('/' + '·'.join(neg) if neg else '')

    # -- execute -------------------------------------------------------------
    def apply(self, ev):
        """Execute the event on the real library.
        -> ('ok', obj) | ('exc', exception class name, message)"""
        Q = self.q
        kind = ev[0]
        self.script.append(ev)
        try:
            if kind == 'type':
                # optional 5th element: a concrete quantity type to subclass
                # (the new type is a base type of its own dimension)
                _, name, ref, quantum = ev[:4]
                bases = (self.types[ev[4]],) if len(ev) > 4 else \
                    (Q.Quantity,)
                self.attempted_types.append(name)
                if ref is not None:
                    self.attempted_symbols.append(ref)
                kw = {}
                if ref is not None:
                    kw['ref_unit_symbol'] = ref
                if quantum is not None:
                    kw['quantum'] = O.dec(quantum)
                cls = Q.QuantityMeta(name.split('#')[0], bases, {}, **kw)
                self._model_type(name, ((name, 1),), ref, quantum, True, None)
                self.types[name] = cls
                if ref is not None:
                    self.units[ref] = cls.ref_unit
                return ('ok', cls)
            if kind == 'dtype':
                _, name, definition, ref, quantum = ev
                self.attempted_types.append(name)
                from quantity.term import Term
                define_as = Term([
                    (self.types[tn] if tn in self.types else
                     O.dec(tn) if is_num_code(tn) else self.units[tn[2:]], e)
                    for tn, e in definition])
                kw = {'define_as': define_as}
                if ref is not None:
                    kw['ref_unit_symbol'] = ref
                    self.attempted_symbols.append(ref)
                if quantum is not None:
                    kw['quantum'] = O.dec(quantum)
                cls = Q.QuantityMeta(name, (Q.Quantity,), {}, **kw)
                dim = ()
                for tn, exp in definition:
                    dim = O.dim_mul(dim, O.dim_pow(self.tm[tn].dim, exp))
                all_ref = all(self.tm[tn].ref is not None
                              for tn, _ in definition)
                rsym = None
                if cls.ref_unit is not None:
                    rsym = cls.ref_unit.symbol   # name only; scale is model
                self._model_type(name, dim, rsym if (ref or all_ref) else None,
                                 quantum, False, definition,
                                 expect_ref=bool(ref or all_ref),
                                 all_ref=all_ref)
                self.types[name] = cls
                if cls.ref_unit is not None:
                    self.units[cls.ref_unit.symbol] = cls.ref_unit
                return ('ok', cls)
            if kind == 'unit':
                _, tname, sym, how = ev
                cls = self.types[tname]
                if isinstance(sym, str):
                    self.attempted_symbols.append(sym)
                if how[0] == 'scaled':
                    parent = self.units[how[2]]
                    f = O.dec(how[1])
                    u = cls.new_unit(sym, define_as=f * parent)
                elif how[0] == 'term':
                    u = cls.new_unit(sym, define_as=self.real_term(how[1]))
                elif how[0] == 'derive':
                    args = [self.units[s] for s in how[1]]
                    if sym is None:
                        u = cls.derive_unit_from(*args)
                    else:
                        u = cls.derive_unit_from(*args, symbol=sym)
                elif how[0] == 'none':
                    u = cls.new_unit(sym)
                else:
                    raise ValueError(how)
                self._model_unit(tname, u.symbol if sym is None else sym, how)
                self.units[u.symbol if sym is None else sym] = u
                return ('ok', u)
            if kind == 'cur':
                from quantity.money import Money
                self.attempted_symbols.append(ev[1])
                u = Money.register_currency(ev[1])
                self._model_currency(ev[1], u)
                return ('ok', u)
            if kind == 'curin':
                _, tname, sym = ev
                self.attempted_symbols.append(sym)
                u = self.types[tname].register_currency(sym)
                self.um[sym] = UnitM(sym, tname, None, ((sym, 1),))
                self.tm[tname].units.append(sym)
                self.units[sym] = u
                return ('ok', u)
            if kind == 'newcur':
                from quantity.money import Money
                _, sym, minor, sf = ev
                self.attempted_symbols.append(sym)
                kw = {}
                if minor is not None:
                    kw['minor_unit'] = minor
                if sf is not None:
                    kw['smallest_fraction'] = O.dec(sf)
                u = Money.new_unit(sym, **kw)
                self._model_currency(sym, u)
                if not hasattr(self, 'user_currencies'):
                    self.user_currencies = set()
                self.user_currencies.add(sym)
                return ('ok', u)
            raise ValueError(ev)
        except Exception as exc:
            if isinstance(exc, (KeyError,)) and kind in ('unit',) and \
                    exc.args and exc.args[0] in (ev[2],):
                raise
            return ('exc', type(exc).__name__, str(exc)[:120])

    def must(self, ev):
        """apply a set-up declaration that has to succeed"""
        res = self.apply(ev)
        if res[0] != 'ok':
            raise SetupRejected(ev, res)
        return res[1]

    # -- model updates (only after the real declaration succeeded) ------------
    def _model_type(self, name, dim, ref, quantum, base, definition,
                    expect_ref=None, all_ref=None):
        tm = TypeM(name, dim, ref, O.val(quantum) if quantum else None, base)
        tm.definition = definition
        self.tm[name] = tm
        if ref is not None:
            tm.units.append(ref)
            if base or not all_ref:
                um = UnitM(ref, name, F(1), ((ref, 1),))
            else:
                # reference unit of a derived type: product of the base
                # types' reference units
                udim = ()
                for tn, exp in definition:
                    r = self.tm[tn].ref
                    udim = O.dim_mul(udim, O.dim_pow(self.um[r].udim, exp))
                um = UnitM(ref, name, F(1), udim)
                fac = F(1)
                for tn, exp in definition:
                    fac *= self.um[self.tm[tn].ref].ufac ** exp
                um.ufac = fac
            self.um[ref] = um

    def _model_unit(self, tname, sym, how):
        tm = self.tm[tname]
        if how[0] == 'scaled':
            p = self.um[how[2]]
            f = O.val(how[1])
            um = UnitM(sym, tname,
                       None if p.scale is None else f * p.scale, p.udim)
            um.ufac = f * p.ufac
        elif how[0] in ('term', 'derive'):
            if how[0] == 'derive':
                items = [[s, e] for (tn, e), s in zip(tm.definition, how[1])]
            else:
                items = how[1]
            fac, udim, tdim = self.term_denotation(items)
            scale = None
            if tm.ref is not None:
                r = self.um[tm.ref]
                if tuple(udim) == tuple(r.udim):
                    scale = fac / r.ufac
            um = UnitM(sym, tname, scale, udim)
            um.ufac = fac
        else:   # definition-less
            um = UnitM(sym, tname, None if tm.ref is None else None,
                       ((sym, 1),))
        self.um[sym] = um
        tm.units.append(sym)

    def _model_currency(self, sym, u):
        if 'Money' not in self.tm:
            from quantity.money import Money
            self.types['Money'] = Money
            self.tm['Money'] = TypeM('Money', (('Money', 1),), None, None,
                                     True)
        if sym not in self.um:
            self.um[sym] = UnitM(sym, 'Money', None, ((sym, 1),))
            self.tm['Money'].units.append(sym)
        self.units[sym] = u
